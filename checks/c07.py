"""C07 — memory safety and read-only treatment of application buffers (Reed-Solomon codecs, kernels, dispatch layer; LDPC-Staircase decoder: BOUNDED session contract)."""
from checks import c10, c06, c13, c09, lbc

INFO = {
    "level": "model_checking",
    "explanation": "not a separate contract: every run has pointer/bounds checks on exact-size objects, and the frame clauses of the contracts that touch "
                   "application memory are re-run here: RS API layer (received symbols never written, pointers kept, tables of exactly n / k entries), "
                   "encoders (sources untouched, output slot only), dispatch layer (ESI range check before dispatch, rejected calls touch nothing), "
                   "symbol kernels (nothing read or written beyond `size`: of_add_to_symbol for every size and alignment, the others per size)",
    "assumptions": ["the LDPC-Staircase IT/ML decoder's accesses: BOUNDED session contract on small codes (pointer/bounds checks on exact-size buffers, received symbols and the application table never written)", "bounds as in the carrying contracts (C10, C06, C13, C09)"],
    "trusted": [],
}


def jobs(tier, seed):
    js = c10.api_jobs(tier, fns=(1, 2, 3, 4), group_prefix="frame_rs_api")
    js += [j for j in c06.jobs(tier, seed) if j.name.startswith(("encode.", "build_repair."))]
    js += [j for j in c09.jobs(tier, seed) if j.name.startswith("dispatch.") and ("bad_esi" in j.name or "null_argument" in j.name)]
    k = [j for j in c13.jobs(tier, seed)]
    keep = []
    for j in k:
        n = j.name
        if n == "xor1.all_sizes" or n.startswith("gf.") and (n.endswith((".size0", ".size1", ".size15", ".size16", ".size17", ".size33", ".size64"))) \
           or (n.startswith(("xor_many_into_one", "xor_one_into_many")) and (".size0." in n or ".size13." in n or ".size33." in n) and n.endswith((".count0", ".count1", ".count9", ".count20"))):
            keep.append(j)
    for j in js:
        if j.name.startswith("build_repair.") and (".ldpc." in j.name or ".2d." in j.name) and tier == "quick":
            pass
    seen = set()
    out = []
    for j in js + keep:
        if j.name not in seen:
            seen.add(j.name)
            out.append(j)
    if tier == "quick":   # the LDPC/2D row family is large; keep a slice here (the whole family runs under C06)
        out = [j for j in out if not (j.name.startswith("build_repair.") and (".ldpc." in j.name or ".2d." in j.name)) or j.name.endswith(("row0", "row5", "rowf", "row3"))]
    ld = lbc.c04_jobs(tier, seed, prop="C07", prefix="c07it", group_prefix="lbc_frame_stream") + lbc.cb_jobs(tier, seed, prop="C07", prefix="c07cb", group_prefix="lbc_frame_callbacks") \
        + lbc.c03_jobs(tier, seed, prop="C07", prefix="c07ml", group_prefix="lbc_frame_finish")
    if tier == "quick":
        ld = [j for j in ld if lbc.pick(j.name, 4, 0) or (".k3r5e." in j.name and ".finish" in j.name and lbc.pick(j.name, 2, 0))]   # even N1 (injected zero symbol) + ML: a larger share
    else:
        ld = [j for j in ld if lbc.pick(j.name, 3, 2)]
    return out + ld
