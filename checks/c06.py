"""C06 — encoders emit the canonical codeword of the configured code."""
from ofvlib.core import Job

M = "src/lib_common/of_mem.c"
GFC = "src/lib_stable/reed-solomon_gf_2_m/galois_field_codes_utils/"
GF2M = [GFC + "of_galois_field_code.c", GFC + "algebra_2_4.c", GFC + "algebra_2_8.c", M]
LEG = "src/lib_stable/reed-solomon_gf_2_8/of_reed-solomon_gf_2_8.c"
API = ["src/lib_common/of_openfec_api.c", M, "src/lib_stable/reed-solomon_gf_2_8/of_reed-solomon_gf_2_8_api.c",
       "src/lib_stable/reed-solomon_gf_2_m/of_reed-solomon_gf_2_m_api.c"]
LB = "src/lib_common/linear_binary_codes_utils/"
LIN = [LB + "binary_matrix/of_matrix_sparse.c", LB + "of_symbol.c", M]

INFO = {
    "level": "model_checking",
    "explanation": "generator contract (G = V * V_top^-1 on the points 0,1,a,a^2,...) for the GF(2^m) codec and the legacy codec per (k,n); encode contracts "
                   "for an arbitrary generator row relative to the multiplication tables (C14) and kernels (C13); API wrappers with the core replaced by "
                   "recording stubs; LDPC / 2D repair-symbol builders specified against one parity-check row",
    "assumptions": ["m=4: the whole parameter space 1 <= k < n <= 15 is enumerated in the thorough tier (proof by complete enumeration); quick runs a subset",
                    "m=8 generators (both codecs) only for small (k,n): BOUNDED",
                    "encode contracts are for k <= 4 operands and symbol length 2..3 with real kernels (the kernels' own contracts for every length are C13)",
                    "LDPC/2D: one equation row with every column subset of n <= 6 (quick) / 8 (thorough); going through the real LDPC construction does not terminate in CBMC"],
    "trusted": [],
}


def jobs(tier, seed):
    js = []
    H = "c06_encode.c"
    # --- generators
    if tier == "quick":
        m4 = [(1, 2), (1, 15), (2, 3), (2, 15), (3, 7), (5, 11), (7, 15), (11, 15), (14, 15), (8, 12)]
        m8 = [(1, 2), (2, 4), (3, 6), (2, 6), (5, 6)]
        leg = [(2, 3), (2, 4), (3, 6)]
    else:
        m4 = [(k, n) for n in range(2, 16) for k in range(1, n)]
        m8 = [(k, n) for n in range(2, 11) for k in range(1, n)]
        leg = [(k, n) for n in range(2, 8) for k in range(1, n)]
    for (k, n) in m4:
        js.append(Job("generator.gf2m.m4.k%d.n%d" % (k, n), "generator_gf2m_m4", H, ["of_rs_2m_build_encoding_matrix", "of_galois_field_2_4_invert_vdm", "of_galois_field_2_4_matmul"],
                      repo_sources=GF2M, defines={"OFV_T": 1, "OFV_M": 4, "OFV_K": k, "OFV_N": n}, unwind=300, object_bits=10, timeout=900, mem_gb=6,
                      status="proved" if tier != "quick" else "bounded",
                      bound="(k,n) harness constants; the family 1 <= k < n <= 15 has 105 members (all run in the thorough tier; %d here)" % len(m4)))
    for (k, n) in m8:
        js.append(Job("generator.gf2m.m8.k%d.n%d" % (k, n), "generator_gf2m_m8", H, ["of_rs_2m_build_encoding_matrix", "of_galois_field_2_8_invert_vdm", "of_galois_field_2_8_matmul"],
                      repo_sources=GF2M, defines={"OFV_T": 1, "OFV_M": 8, "OFV_K": k, "OFV_N": n}, unwind=300, object_bits=10, timeout=900, mem_gb=6,
                      status="bounded", bound="(k,n) in a small set (%d pairs, n <= %d)" % (len(m8), max(n for _, n in m8))))
    for (k, n) in leg:
        js.append(Job("generator.legacy.k%d.n%d" % (k, n), "generator_legacy_gf256", H, ["of_rs_new", "of_invert_vdm", "of_matmul"],
                      repo_sources=[M], tu_included=[LEG], defines={"OFV_T": 2, "OFV_K": k, "OFV_N": n}, unwind=300, object_bits=10, timeout=1500, mem_gb=8,
                      status="bounded", bound="(k,n) in a small set (%d pairs)" % len(leg)))
    # --- encode contracts (arbitrary generator row)
    K, LEN = 3, 3
    for m in (8, 4):
        for esi in (0, K, K + 1, K + 2):
            js.append(Job("encode.gf2m.m%d.esi%d" % (m, esi), "encode_gf2m", H, ["of_rs_2m_encode"], repo_sources=GF2M,
                          defines={"OFV_T": 3, "OFV_M": m, "OFV_K": K, "OFV_LEN": LEN, "OFV_ESI": esi}, unwind=40, solver="z3" if m == 8 else "cadical", timeout=1500, mem_gb=8,
                          status="bounded", bound="k = %d operands, length %d, arbitrary generator row and contents" % (K, LEN)))
    # one longer symbol for the packed GF(2^4) path (unrolled block + tail of the kernel inside the encoder)
    js.append(Job("encode.gf2m.m4.len21", "encode_gf2m", H, ["of_rs_2m_encode"], repo_sources=GF2M,
                  defines={"OFV_T": 3, "OFV_M": 4, "OFV_K": 2, "OFV_LEN": 21, "OFV_ESI": 2}, unwind=40, solver="cadical", timeout=1500, mem_gb=8,
                  status="bounded", bound="k = 2 operands, length 21, arbitrary generator row and contents"))
    for esi in (0, K, K + 1, K + 2):
        js.append(Job("encode.legacy.esi%d" % esi, "encode_legacy_gf256", H, ["of_rs_encode", "of_addmul1"], repo_sources=[M], tu_included=[LEG],
                      defines={"OFV_T": 4, "OFV_K": K, "OFV_LEN": LEN, "OFV_ESI": esi}, unwind=40, solver="z3", extra_cbmc=["--nondet-static"], timeout=900,
                      mem_gb=8, status="bounded", native=False, bound="k = %d operands, length %d, arbitrary generator row, contents and table" % (K, LEN)))
    # --- API wrappers
    js.append(Job("build_repair.rs28.wrapper", "build_repair_symbol_rs_wrappers", H, ["of_build_repair_symbol", "of_rs_build_repair_symbol"], repo_sources=API,
                  defines={"OFV_T": 5, "OFV_CODEC": 1}, replace_calls=[("of_rs_new", "stub_rs_new"), ("of_rs_encode", "stub_rs_encode")],
                  unwind=10, object_bits=12, timeout=900, status="bounded", native=False, bound="n <= 6, length <= 4 (loop-free wrapper; the bound sizes the harness tables)"))
    js.append(Job("build_repair.rs2m.wrapper", "build_repair_symbol_rs_wrappers", H, ["of_build_repair_symbol", "of_rs_2_m_build_repair_symbol"], repo_sources=API,
                  defines={"OFV_T": 5, "OFV_CODEC": 2}, replace_calls=[("of_rs_2m_build_encoding_matrix", "stub_rs_2m_build_encoding_matrix"), ("of_rs_2m_encode", "stub_rs_2m_encode")],
                  unwind=10, object_bits=12, timeout=900, status="bounded", native=False, bound="n <= 6, length <= 4"))
    # --- LDPC / 2D: one row
    shapes = [(2, 2), (3, 3)] if tier == "quick" else [(2, 2), (3, 3), (4, 4), (5, 3)]
    for codec, nm, src in ((3, "ldpc", "src/lib_stable/ldpc_staircase/of_ldpc_staircase_api.c"), (5, "2d", "src/lib_stable/2d_parity_matrix/of_2d_parity_api.c")):
        for (k, r) in shapes:
            n = k + r
            masks = range(1 << n) if (tier != "quick" or n <= 4) else [m for m in range(1 << n) if (m * 2654435761 + seed) % 7 == 0 or m in (0, (1 << n) - 1)]
            for esi in (k, n - 1):
                for mask in masks:
                    js.append(Job("build_repair.%s.k%d.r%d.esi%d.row%x" % (nm, k, r, esi, mask), "build_repair_symbol_" + nm, H,
                                  ["of_%s_build_repair_symbol" % ("ldpc_staircase" if codec == 3 else "2d_parity"), "of_add_to_symbol"], repo_sources=LIN + [src],
                                  defines={"OFV_T": 6, "OFV_CODEC": codec, "OFV_K": k, "OFV_R": r, "OFV_LEN": 9, "OFV_ESI": esi, "OFV_MASK": mask,
                                           "OPENFEC_VERIF_SPARSE_BLOCK": 16},
                                  unwind=20, object_bits=10, timeout=600, mem_gb=4, status="bounded",
                                  bound="one run per (k, n-k, repair esi, column subset of the row), n <= %d, length 9; contents, missing operand, NULL slot symbolic" % max(a + b for a, b in shapes)))
    return js
