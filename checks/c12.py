"""C12 — sessions are independent of each other.  BOUNDED two-run contract (real LDPC-Staircase incl. construction/PRNG, real Reed-Solomon GF(2^4))."""
from ofvlib.core import Job

LB = "src/lib_common/linear_binary_codes_utils/"
RS = "src/lib_stable/reed-solomon_gf_2_m/"
SRCS = ["src/lib_common/of_openfec_api.c", "src/lib_common/of_mem.c", "src/lib_common/of_rand.c",
        LB + "it_decoding/of_it_decoding.c", LB + "ml_decoding/of_ml_decoding.c", LB + "ml_decoding/of_ml_tool.c",
        LB + "binary_matrix/of_matrix_sparse.c", LB + "binary_matrix/of_matrix_dense.c", LB + "binary_matrix/of_matrix_convert.c",
        LB + "binary_matrix/of_tools.c", LB + "of_symbol.c",
        "src/lib_stable/ldpc_staircase/of_ldpc_staircase_api.c", "src/lib_stable/ldpc_staircase/of_ldpc_staircase_pchk.c",
        RS + "of_reed-solomon_gf_2_m_api.c", RS + "galois_field_codes_utils/of_galois_field_code.c", RS + "galois_field_codes_utils/algebra_2_4.c",
        RS + "galois_field_codes_utils/algebra_2_8.c"]
FUNCS = ["of_create_codec_instance", "of_set_fec_parameters", "of_build_repair_symbol", "of_decode_with_new_symbol", "of_finish_decoding",
         "of_is_decoding_complete", "of_get_source_symbols_tab", "of_release_codec_instance", "of_rfc5170_srand", "of_rfc5170_rand",
         "of_create_pchck_matrix_rfc5170_compliant"]

INFO = {
    "level": "model_checking",
    "explanation": "two-run (2-safety) contract on the real library: the complete life of an encoder + decoder session pair A with one step of the life of "
                   "another session pair B (other codec, other field with the same (k, n-k), other seed / symbol length, or identical parameters) before or "
                   "after every call of A, starting from an arbitrary (symbolic) PRNG state; then __CPROVER_initialize() puts every static object back to its "
                   "initial value (a fresh process) and the same calls of A run alone; every status, repair symbol byte, completion flag, available set and "
                   "decoded byte of A is identical in the two runs, for all source data of A and B",
    "assumptions": ["BOUNDED: the enumerated (A, B, received set) instances and two interleaving patterns (one B step before / after every A call); LDPC-Staircase (real construction and PRNG) and Reed-Solomon GF(2^m), m = 4 and 8",
                    "GF multiply-accumulate kernels replaced by their C13 contracts at the call sites (the real kernels form a one-before pointer that CBMC mis-compares for the short buffers used here)",
                    "the legacy GF(2^8) codec's lazily generated tables are covered by C14 (legacy.generate_gf starts from arbitrary table contents), the 2D codec is not covered",
                    "the quiet run starts from a re-initialised process image (__CPROVER_initialize: all statics back to their initial values); heap objects of the first run stay allocated (irrelevant to the comparison)",
                    "same thread only, as the property says"],
    "trusted": [],
}

MASKS = {36: [0x78, 0x35], 37: [0x78, 0x4b], 24: [0x1f8, 0x0bd], 25: [0x1f8, 0x16b], 31: [0x38, 0x1e, 0x2b, 0x07], 35: [0x38, 0x2b], 32: [0x11, 0x3c, 0x1b], 34: [0x11, 0x12, 0x3c, 0x2e], 33: [0x1c, 0x0b], 21: [0x1c, 0x19, 0x0b], 22: [0x1c, 0x16], 23: [0x0e, 0x0b]}
# (A, B): other codec; same codec other parameters; same (k, n-k) other field; same LDPC (k, n-k, N1) other seed / other symbol length; identical parameters
PAIRS_Q = [(31, 21), (21, 31), (22, 21), (21, 22), (34, 32), (31, 35), (32, 33), (36, 31), (36, 37), (25, 24)]
PAIRS_T = PAIRS_Q + [(31, 31), (21, 21), (32, 34), (35, 31), (23, 21), (21, 23), (33, 32), (31, 32), (22, 31)]


def jobs(tier, seed):
    js = []
    for a, b in (PAIRS_Q if tier == "quick" else PAIRS_T):
        ms = MASKS[a] if tier != "quick" else MASKS[a][:2]
        for m in ms:
            for lead in ((1,) if tier == "quick" and m != ms[0] else (1, 0)):
                js.append(Job("independent.A%d.B%d.mask%x.lead%d" % (a, b, m, lead), "session_independence", "c12_independence.c", FUNCS, repo_sources=SRCS,
                              defines=dict({"OFV_A": a, "OFV_B": b, "OFV_MASK": m, "OFV_LEAD": lead, "OPENFEC_VERIF_SPARSE_BLOCK": 64}, **({"OFV_BIG": 1} if max(a, b) in (24, 25) or min(a, b) in (24, 25) else {})), unwind=110, object_bits=12, timeout=1200, mem_gb=4,
                              status="bounded", relevant=r"^independent\.", native=False,
                              replace_calls=[("of_galois_field_2_8_addmul1", "stub_addmul1_2_8"), ("of_galois_field_2_4_addmul1", "stub_addmul1_2_4"), ("of_galois_field_2_4_addmul1_compact", "stub_addmul1_2_4_compact")],
                              checks=["--bounds-check", "--pointer-check", "--div-by-zero-check", "--no-malloc-may-fail"],   # memory safety is C07's subject; the GF kernels form a one-before pointer (section 10.3)
                              bound="A kind %d, B kind %d (table at the top of contracts/c12_independence.c: 2x Reed-Solomon GF(2^m), 3x LDPC-Staircase), received set %#x; one B step %s every A call" % (a, b, m, "before" if lead else "after")))
    return js
