"""C16 — 2D-parity codec: product-parity structure (structure, layout, and a BOUNDED session contract of the decoder)."""
from ofvlib.core import Job
from checks import lbc

LB = "src/lib_common/linear_binary_codes_utils/"
SP = LB + "binary_matrix/of_matrix_sparse.c"
CP = LB + "of_create_pchk.c"
MEM = "src/lib_common/of_mem.c"

INFO = {
    "explanation": "fill contract per admissible shape (finite family), factorisation contract for all accepted (k, n-k), control-block layout lemma",
    "assumptions": ["decoder soundness/completeness/release of the 2D codec (generic IT/ML engines through the cast): BOUNDED session contract on the shapes 2x2, 2x1 (quick) + 2x3, 3x2, 1x3 (thorough): every (small shapes) or sampled received subset then finish, streaming sequences, callbacks, release with leak check"],
    "trusted": ["of_create_2D_pchk_matrix is verified with of_mod2sparse_allocate and of_fill_2D_pchk_matrix replaced by recording stubs; the fill contract is discharged separately per shape"],
}


def shapes():
    out = []
    for a in range(1, 17):
        for b in range(1, 17):
            if a * b <= 16 and a * b + a + b <= 24:
                out.append((a, b))
    return out


def jobs(tier, seed):
    js = []
    js.append(Job("2d.layout", "2d_control_block_layout", "c16_2d.c", [], defines={"OFV_T": 3}, timeout=300, status="proved"))
    js.append(Job("2d.create.factorisation", "2d_create_factorisation", "c16_2d.c", ["of_create_2D_pchk_matrix"], defines={"OFV_T": 2},
                  repo_sources=[CP], replace_calls=[("of_mod2sparse_allocate", "stub_allocate"), ("of_fill_2D_pchk_matrix", "stub_fill")], unwind=20, timeout=900, mem_gb=8, status="proved",
                  bound="all (k, n-k) with k <= 16, n <= 24 (the codec's whole accepted range), symbolic"))
    sh = shapes()
    if tier == "quick":
        pick = [(1, 1), (1, 2), (2, 1), (2, 3), (3, 2), (3, 3), (4, 4), (2, 8), (8, 2), (1, 11), (3, 4), (4, 3)]
        sh = [s for s in sh if s in pick]
    for (a, b) in sh:
        js.append(Job("2d.fill.%dx%d" % (a, b), "2d_fill_matrix", "c16_2d.c", ["of_fill_2D_pchk_matrix", "of_mod2sparse_insert", "of_mod2sparse_find", "of_mod2sparse_allocate"],
                      repo_sources=[SP, CP, MEM], defines={"OFV_T": 1, "OFV_A": a, "OFV_B": b, "OPENFEC_VERIF_SPARSE_BLOCK": 64},
                      unwind=70, timeout=1500, mem_gb=10, status="proved" if tier != "quick" else "bounded", object_bits=10,
                      bound="shape (%d,%d) is a harness constant; the family of admissible shapes is finite (%d shapes, all run in the thorough tier)" % (a, b, len(shapes()))))
    js += lbc.p2d_jobs(tier, seed, prop="C16")
    return js
