"""C01 — decoders never hand back a wrong source symbol (Reed-Solomon part only; LDPC-Staircase not reached)."""
from checks import c02, c10

INFO = {
    "level": "model_checking",
    "explanation": "Reed-Solomon codecs only: a source symbol made available is either a received one (stored by the very pointer the application "
                   "supplied and never written: C10 frame clauses, re-run here) or a decoded one (what the decode core produced, stored unchanged in the "
                   "callback's or the library's buffer: callback.decoded_value_stored), and the decode core returns the encoder's sources for every "
                   "k-subset of small (k,n) and all data (C02 decode-core contract, re-run here). Completion implies all k sources available (inv.*).",
    "assumptions": ["LDPC-Staircase (IT peeling, ML Gaussian elimination) is NOT decided by this technique (DESIGN.md section 6)",
                    "decode-core contract BOUNDED in (k,n); beyond it one trusted theorem (Vandermonde), see C02",
                    "kernels (C13) and tables (C14) carry the byte-level arithmetic"],
    "trusted": ["Vandermonde theorem for (k,n) beyond the enumerated pairs"],
}


def jobs(tier, seed):
    return c02.decode_jobs(tier, group="rs_decode_core") + c10.api_jobs(tier, fns=(1, 2, 3, 4), group_prefix="rs_api")
