"""C01 — decoders never hand back a wrong source symbol (Reed-Solomon codecs: contract composition; LDPC-Staircase: BOUNDED session contract)."""
from checks import c02, c10, lbc, c18

INFO = {
    "level": "model_checking",
    "explanation": "Reed-Solomon codecs only: a source symbol made available is either a received one (stored by the very pointer the application "
                   "supplied and never written: C10 frame clauses, re-run here) or a decoded one (what the decode core produced, stored unchanged in the "
                   "callback's or the library's buffer: callback.decoded_value_stored), and the decode core returns the encoder's sources for every "
                   "k-subset of small (k,n) and all data (C02 decode-core contract, re-run here). Completion implies all k sources available (inv.*).",
    "assumptions": ["LDPC-Staircase (IT peeling, ML Gaussian elimination): BOUNDED session contract on small codes (k + (n-k) <= 9): every received subset then finish, and enumerated arrival sequences with every prefix; clause sound.available_source_is_the_encoded_one for all source data",
                    "decode-core contract BOUNDED in (k,n); beyond it one trusted theorem (Vandermonde), see C02",
                    "kernels (C13) and tables (C14) carry the byte-level arithmetic"],
    "trusted": ["Vandermonde theorem for (k,n) beyond the enumerated pairs"],
}


def jobs(tier, seed):
    js = c02.decode_jobs(tier, group="rs_decode_core") + c10.api_jobs(tier, fns=(1, 2, 3, 4), group_prefix="rs_api")
    ld = lbc.c03_jobs(tier, seed, prop="C01", prefix="c01ml", group_prefix="lbc_sound_finish") + lbc.c04_jobs(tier, seed, prop="C01", prefix="c01it", group_prefix="lbc_sound_stream")
    if tier == "quick":   # a slice here; the whole families run under C03 / C04
        ld = [j for j in ld if lbc.pick(j.name, 5, 0)]
    else:
        ld = [j for j in ld if lbc.pick(j.name, 3, 0)]
    # ML decoding with symbol lengths that exercise the 8/4/2/1-operand and 64/32/8-bit splits of the multi-operand XOR kernels (many equations below a pivot)
    rng = __import__("random").Random(seed + 7)
    for key in (("k4r6", "k4r8x") if tier == "quick" else ("k4r6", "k4r8x", "k2r7", "k5r7", "k5r5")):   # k4r6: N1 = 5, four equations below the first pivot
        k, r = lbc.LDPC[key][0], lbc.LDPC[key][1]
        n = k + r
        for ln in ((7, 13) if tier == "quick" else (5, 6, 7, 13, 21)):
            hist = [list(range(k, n)), list(range(n - 1, k - 1, -1))] + [sorted(rng.sample(range(n), n - k + 1)) for _ in range(2 if tier == "quick" else 6)]
            for h in hist:
                ld.append(lbc.job("c01len", "lbc_sound_finish_symbol_lengths", 3, key, h, api=0, finish=1, ln=ln, rnd=[rng.randrange(r) for _ in range(r)], prop="C01", timeout=400))
    # the dense solver used by ML decoding, against exact bit-matrix algebra (C18's solver contract, re-run here: system sizes at the 32/64-column word boundaries)
    sol = [j for j in c18.jobs(tier, seed) if j.name.startswith(("solver.lower_triangular.32x31", "solver.upper_triangular.32x31", "solver.lower_triangular.33x32", "solver.upper_triangular.33x32"))]
    # the GF multiply-accumulate kernel contracts that stand in for the kernels inside the RS decode cores (C13's contracts, a slice re-run here: sizes with a
    # 16-byte block part and a tail, where a slip in the block/tail hand-over shows)
    ker = c02.kernel_jobs(tier, seed, sizes=(15, 17, 24, 33) if tier == "quick" else tuple(range(0, 65)))
    return js + lbc.dedupe(ld) + sol + ker
