"""C15 — the 'last repair symbol is null' claim of LDPC-Staircase is truthful.  BOUNDED (concrete parameter points, all source data)."""
from checks import c05

INFO = {
    "level": "model_checking",
    "explanation": "contract on real sessions with the real matrix construction for concrete (k, n-k, N1, seed): whenever OF_CRTL_LDPC_STAIRCASE_IS_LAST_SYMBOL_NULL "
                   "reports true, the last repair symbol built by the real encoder (of_build_repair_symbol for every repair ESI, staircase order) is all "
                   "zeros for ALL source data (symbolic); the claim is true exactly when N1 is even and the RFC 5170 procedure added no extra bit; encoder "
                   "and decoder sessions report the same answer",
    "assumptions": ["BOUNDED: one run per parameter point (same family as C05, restricted to points where the claim can be true plus control points), symbol length 1 byte",
                    "the decoder's use of the claim (injection of a zero symbol) is covered by the k4r4e / k3r5e codes of the session contract (C03/C04)"],
    "trusted": [],
}


def jobs(tier, seed):
    js = c05.jobs(tier, seed, t=2, prop="last_null", group="ldpc_last_repair_null",
                  funcs=["of_ldpc_staircase_get_control_parameter", "of_get_control_parameter", "of_ldpc_staircase_set_fec_parameters", "of_create_pchck_matrix_rfc5170_compliant",
                         "of_ldpc_staircase_build_repair_symbol", "of_build_repair_symbol"])
    # points outside the advertised limits (N1 > n-k): they must be rejected (C09); should a change accept them, the claim must still be truthful
    from ofvlib.core import Job
    for (k, r, n1, sd) in ((1, 1, 4, 1), (2, 3, 4, 1), (3, 3, 4, 2), (2, 1, 6, 5), (3, 5, 6, 1)):
        js.append(Job("last_null.outside_limits.k%d.r%d.N1_%d.seed%d" % (k, r, n1, sd), "ldpc_last_repair_null", "c05_ldpc_matrix.c", js[0].functions, repo_sources=c05.SRCS,
                      defines={"OFV_T": 2, "OFV_ROLE": 3, "OFV_K": k, "OFV_R": r, "OFV_N1": n1, "OFV_SEED": sd, "OFV_MAY_REJECT": 1, "OPENFEC_VERIF_SPARSE_BLOCK": 64},
                      unwind=110, object_bits=11, timeout=600, mem_gb=3, status="bounded", bound="(k, n-k, N1, seed) = (%d, %d, %d, %d), N1 > n-k" % (k, r, n1, sd)))
    # keep every even-N1 point and a third of the odd ones (control: the claim must be false there)
    return [j for i, j in enumerate(js) if ".N1_4." in j.name or ".N1_6." in j.name or "outside" in j.name or i % 3 == 0]
