"""C09 — parameters and arguments are validated: accepted => usable, unusable => rejected."""
from ofvlib.core import Job

API = "src/lib_common/of_openfec_api.c"
MEM = "src/lib_common/of_mem.c"
RS1 = "src/lib_stable/reed-solomon_gf_2_8/of_reed-solomon_gf_2_8_api.c"
RS2 = "src/lib_stable/reed-solomon_gf_2_m/of_reed-solomon_gf_2_m_api.c"

INFO = {
    "explanation": "contracts of of_set_fec_parameters (through the real dispatch layer) for both Reed-Solomon codecs with every field of the "
                   "parameter structure unconstrained, and of the dispatch-layer argument checks",
    "assumptions": ["'accepted => the session then encodes and decodes correctly' is carried modularly: OK implies the valid-session predicate, which is the precondition of the encode/decode contracts of C06/C10/C11"],
    "trusted": [],
}


def jobs(tier, seed):
    js = []
    srcs = [API, MEM, RS1, RS2]
    js.append(Job("rs28.set_params", "rs28_set_fec_parameters", "c09_rs_set_params.c", ["of_set_fec_parameters", "of_rs_set_fec_parameters", "of_create_codec_instance", "of_rs_get_control_parameter"],
                  repo_sources=srcs, defines={"OFV_CODEC": 1}, unwind=3, timeout=600, status="proved"))
    js.append(Job("rs2m.set_params", "rs2m_set_fec_parameters", "c09_rs_set_params.c", ["of_set_fec_parameters", "of_rs_2_m_set_fec_parameters", "of_rs_2_m_set_control_parameter", "of_rs_2_m_get_control_parameter"],
                  repo_sources=srcs, defines={"OFV_CODEC": 2, "OFV_REGION": 0}, unwind=3, timeout=600, status="proved",
                  bound="everything outside the known-finding region n > 2^m-1"))
    js.append(Job("rs2m.set_params.known_region_n_above_field_size", "rs2m_set_fec_parameters", "c09_rs_set_params.c", ["of_set_fec_parameters", "of_rs_2_m_set_fec_parameters"],
                  repo_sources=srcs, defines={"OFV_CODEC": 2, "OFV_REGION": 1}, unwind=3, timeout=600, status="proved",
                  bound="witness of the known finding: only configurations with n > 2^m-1"))
    return js
