"""C09 — parameters and arguments are validated: accepted => usable, unusable => rejected."""
from ofvlib.core import Job

API = "src/lib_common/of_openfec_api.c"
MEM = "src/lib_common/of_mem.c"
RS1 = "src/lib_stable/reed-solomon_gf_2_8/of_reed-solomon_gf_2_8_api.c"
RS2 = "src/lib_stable/reed-solomon_gf_2_m/of_reed-solomon_gf_2_m_api.c"

INFO = {
    "explanation": "contracts of of_set_fec_parameters (through the real dispatch layer) for both Reed-Solomon codecs with every field of the "
                   "parameter structure unconstrained, and of the dispatch-layer argument checks",
    "assumptions": ["'accepted => the session then encodes and decodes correctly' is carried modularly: OK implies the valid-session predicate, which is the precondition of the encode/decode contracts of C06/C10/C11"],
    "trusted": [],
}


def jobs(tier, seed):
    js = []
    srcs = [API, MEM, RS1, RS2]
    js.append(Job("rs28.set_params", "rs28_set_fec_parameters", "c09_rs_set_params.c", ["of_set_fec_parameters", "of_rs_set_fec_parameters", "of_create_codec_instance", "of_rs_get_control_parameter"],
                  repo_sources=srcs, defines={"OFV_CODEC": 1}, unwind=3, timeout=600, status="proved"))
    js.append(Job("rs2m.set_params", "rs2m_set_fec_parameters", "c09_rs_set_params.c", ["of_set_fec_parameters", "of_rs_2_m_set_fec_parameters", "of_rs_2_m_set_control_parameter", "of_rs_2_m_get_control_parameter"],
                  repo_sources=srcs, defines={"OFV_CODEC": 2, "OFV_REGION": 0}, unwind=3, timeout=600, status="proved",
                  bound="everything outside the known-finding region n > 2^m-1"))
    js.append(Job("rs2m.set_params.known_region_n_above_field_size", "rs2m_set_fec_parameters", "c09_rs_set_params.c", ["of_set_fec_parameters", "of_rs_2_m_set_fec_parameters"],
                  repo_sources=srcs, defines={"OFV_CODEC": 2, "OFV_REGION": 1}, unwind=3, timeout=600, status="proved",
                  bound="witness of the known finding: only configurations with n > 2^m-1"))
    lib = srcs + ["src/lib_stable/reed-solomon_gf_2_8/of_reed-solomon_gf_2_8.c",
                  "src/lib_stable/reed-solomon_gf_2_m/galois_field_codes_utils/of_galois_field_code.c",
                  "src/lib_stable/reed-solomon_gf_2_m/galois_field_codes_utils/algebra_2_4.c",
                  "src/lib_stable/reed-solomon_gf_2_m/galois_field_codes_utils/algebra_2_8.c"]
    api_fns = ["of_build_repair_symbol", "of_decode_with_new_symbol", "of_set_available_symbols", "of_finish_decoding", "of_is_decoding_complete",
               "of_get_source_symbols_tab", "of_set_fec_parameters", "of_set_callback_functions", "of_get_control_parameter", "of_set_control_parameter"]
    LD = ["src/lib_common/of_openfec_api.c", MEM, "src/lib_stable/ldpc_staircase/of_ldpc_staircase_api.c", "src/lib_common/of_rand.c"]
    js.append(Job("ldpc.set_params.reject_direction", "ldpc_set_fec_parameters", "c09_ldpc_set_params.c", ["of_set_fec_parameters", "of_ldpc_staircase_set_fec_parameters", "of_ldpc_staircase_get_control_parameter"],
                  repo_sources=LD, defines={"OFV_T": 1}, replace_calls=[("of_create_pchck_matrix_rfc5170_compliant", "stub_create_pchk")], unwind=3, object_bits=10,
                  timeout=600, status="proved", native=False))
    js.append(Job("ldpc.construct.rejects_large_N1", "ldpc_set_fec_parameters", "c09_ldpc_set_params.c", ["of_create_pchck_matrix_rfc5170_compliant"],
                  repo_sources=LD + ["src/lib_stable/ldpc_staircase/of_ldpc_staircase_pchk.c"], defines={"OFV_T": 2}, unwind=8, object_bits=10, timeout=600, status="bounded", native=False,
                  bound="six constant (n-k, N1, k) points with N1 > n-k"))
    # seeding accepts exactly the advertised seed range (the contract is C19's; re-run here because seed validity is part of C09)
    js.append(Job("ldpc.seed_range.srand_contract", "ldpc_set_fec_parameters", "c19_rand.c", ["of_rfc5170_srand"], defines={"OFV_T": 1},
                  tu_included=["src/lib_common/of_rand.c"], timeout=600, status="proved"))
    calls = ["build_repair_symbol", "decode_with_new_symbol", "set_available_symbols", "finish_decoding", "is_decoding_complete",
             "get_source_symbols_tab", "set_fec_parameters", "set_callback_functions", "get_control_parameter", "set_control_parameter"]
    bads = {0: ("null_session", range(10)), 1: ("wrong_role", range(0, 6)), 2: ("bad_esi", (0, 1)), 3: ("null_argument", (1, 2, 6))}
    for c, nm in ((1, "rs28"), (2, "rs2m")):
        for b, (bn, cl) in bads.items():
            for call in cl:
                js.append(Job("dispatch.%s.%s.%s" % (nm, calls[call], bn), "dispatch_argument_validation", "c09_dispatch.c", ["of_" + calls[call]],
                              repo_sources=srcs, defines={"OFV_CODEC": c, "OFV_CALL": call, "OFV_BAD": b}, unwind=20, unwindset=["memcmp.0:400"], object_bits=12,
                              remove_bodies=["of_rs_finish_decoding", "of_rs_2_m_finish_decoding"],
                              timeout=600, mem_gb=6, status="proved",
                              bound="session shape n <= 15, length <= 4 (rejected calls are loop-free; the bound only sizes the harness tables)"))
    # LDPC accept direction on concrete in-limits points with the REAL construction ("accepted => usable": the session's matrix is the code's matrix,
    # C05's contract; a slice of that family re-run here; BOUNDED) and the decoding session contract on an accepted configuration (C03/C04 families)
    from checks import c05
    for j in c05.jobs(tier, seed)[:(8 if tier == "quick" else 40)]:
        if j.name.startswith("matrix."):
            j.name = "ldpc.accept." + j.name
            j.group = "ldpc_set_fec_parameters_accept"
            j.relevant = r"^set_params\.|^matrix\."
            js.append(j)
    return js
