"""C02 — Reed-Solomon codecs are MDS: any k of the n symbols recover the block (BOUNDED in (k,n))."""
import itertools
from ofvlib.core import Job
from checks import c10, c13

M = "src/lib_common/of_mem.c"
GFC = "src/lib_stable/reed-solomon_gf_2_m/galois_field_codes_utils/"
GF2M = [GFC + "of_galois_field_code.c", GFC + "algebra_2_4.c", GFC + "algebra_2_8.c", M]
LEG = "src/lib_stable/reed-solomon_gf_2_8/of_reed-solomon_gf_2_8.c"
RC2 = [("of_galois_field_2_8_addmul1", "stub_addmul1_2_8"), ("of_galois_field_2_4_addmul1", "stub_addmul1_2_4"), ("of_galois_field_2_4_addmul1_compact", "stub_addmul1_2_4_compact")]

INFO = {
    "level": "model_checking",
    "explanation": "chain of contracts: (1) decode-core contract on the real generator construction + real encoder + real decoder for every k-subset of small "
                   "(k,n) with arbitrary source data (this file); (2) API-layer plumbing: decode triggered as soon as k distinct symbols are known, fewer than "
                   "k => never complete and finish returns FAILURE, core called within its precondition (C10 groups, re-run here); (3) canonical generator "
                   "(C06) and distinct evaluation points (C14) carried by their own checks",
    "assumptions": ["BOUNDED: (k,n) up to (3,6) for GF(2^4) and the legacy codec, (2,4)/(3,5) for GF(2^8) in the quick tier; 'any k rows of G are invertible' for larger (k,n) is the Vandermonde theorem on pairwise distinct points (distinctness proved in C14) and is TRUSTED, not machine-checked",
                    "multiply-accumulate kernels replaced by their C13 contracts at the call sites inside the cores; those contracts are discharged against the real kernels in this check too (gf_addmul_* groups: one loop-free run per symbol size, sizes listed in the group's bound - BOUNDED in the size)"],
    "trusted": ["Vandermonde theorem for (k,n) beyond the enumerated pairs"],
}


def decode_jobs(tier, group="rs_decode_core"):
    js = []
    if tier == "quick":
        cfgs = [(2, 4, 2, 4), (2, 4, 3, 6), (2, 4, 1, 3), (2, 8, 2, 4), (2, 8, 1, 3), (1, 8, 2, 3)]
    else:
        cfgs = [(2, 4, k, n) for n in range(2, 9) for k in range(1, n) if k <= 4] + [(2, 8, k, n) for n in range(2, 7) for k in range(1, n) if k <= 3] + \
               [(1, 8, k, n) for n in range(2, 7) for k in range(1, n) if k <= 3]
    for (c, m, k, n) in cfgs:
        for sub in itertools.combinations(range(n), k):
            mask = sum(1 << i for i in sub)
            nm = "legacy" if c == 1 else "gf2m.m%d" % m
            js.append(Job("decode.%s.k%d.n%d.subset%x" % (nm, k, n, mask), group + "_" + nm, "c02_decode.c",
                          ["of_rs_decode", "of_rs_new", "of_rs_encode", "of_invert_mat", "of_build_decode_matrix", "of_shuffle"] if c == 1 else
                          ["of_rs_2m_decode", "of_rs_2m_build_encoding_matrix", "of_rs_2m_encode", "of_rs_2m_build_decoding_matrix", "of_galois_field_2_%d_invert_mat" % m],
                          repo_sources=[M] if c == 1 else GF2M, tu_included=[LEG] if c == 1 else [],
                          defines={"OFV_CODEC": c, "OFV_M": m, "OFV_K": k, "OFV_N": n, "OFV_LEN": 3, "OFV_MASK": mask},
                          replace_calls=[("of_addmul1", "stub_addmul1")] if c == 1 else RC2, wrap_native=False,
                          unwind=300, object_bits=12, timeout=1500, mem_gb=8, status="bounded", solver="z3" if (m == 8 and c == 2) else ("cadical" if c == 1 else None),
                          bound="one run per (field, k, n, k-subset): every subset of the listed (k,n) pairs; all source data symbolic, length 3"))
    return js


def kernel_jobs(tier, seed, sizes=None):
    """the C13 contracts of the four GF multiply-accumulate kernels (the contracts that replace the kernels at the call sites inside the decode cores),
    re-run here so that the chain generator -> encoder -> decoder -> kernel is closed inside this property's own check"""
    if sizes is None:
        sizes = (0, 1, 2, 3, 7, 8, 15, 16, 17, 18, 24, 31, 32, 33, 40, 47, 48, 49, 63, 64) if tier == "quick" else tuple(range(0, 161))
    want = set("size%d" % s for s in sizes)
    return [j for j in c13.jobs(tier, seed) if j.name.startswith("gf.") and j.name.rsplit(".", 1)[1] in want]


def jobs(tier, seed):
    return decode_jobs(tier) + c10.api_jobs(tier, fns=(1, 3), group_prefix="rs_api_plumbing") + kernel_jobs(tier, seed)
