"""C03 — LDPC-Staircase of_finish_decoding is ML-complete: succeeds iff recoverable.  BOUNDED (small codes, every received subset)."""
from checks import lbc

INFO = {
    "level": "model_checking",
    "explanation": "session contract of the real IT + ML engines behind the public API on small LDPC-Staircase codes (matrices the real construction "
                   "returns for small (k, n-k, N1, seed)): for EVERY received subset of the n symbols, submitted through of_decode_with_new_symbol or "
                   "of_set_available_symbols in increasing / decreasing / shuffled order and with different ML injection orders, of_finish_decoding "
                   "makes all k sources available <=> the columns of H of the symbols not received are linearly independent (spec_full_rank), "
                   "leaves decoding incomplete otherwise, and every available source equals the encoded one for all source data (symbolic)",
    "assumptions": ["BOUNDED: k + (n-k) <= 9 (quick: three codes incl. one with even N1 and extra entries; thorough: nine codes), symbol length 1 byte (byte positions are independent in every kernel: C13)",
                    "the matrix construction is replaced by a stub that builds the constant matrix through the real of_mod2sparse_insert (which matrix the construction returns is C05's subject)",
                    "libc rand() (ML injection order of repair symbols) is a constant sequence per run; a few sequences are tried",
                    "outcome independent of order/API is decided only through the enumerated (subset, order, API) instances all agreeing with the set-only specification"],
    "trusted": [],
}


def jobs(tier, seed):
    return lbc.c03_jobs(tier, seed, prop="C03")
