"""C03 — LDPC-Staircase of_finish_decoding is ML-complete: succeeds iff recoverable.  BOUNDED (small codes, every received subset)."""
from checks import lbc, c18

INFO = {
    "level": "model_checking",
    "explanation": "session contract of the real IT + ML engines behind the public API on small LDPC-Staircase codes (matrices the real construction "
                   "returns for small (k, n-k, N1, seed)): for EVERY received subset of the n symbols, submitted through of_decode_with_new_symbol or "
                   "of_set_available_symbols in increasing / decreasing / shuffled order and with different ML injection orders, of_finish_decoding "
                   "makes all k sources available <=> the columns of H of the symbols not received are linearly independent (spec_full_rank), "
                   "leaves decoding incomplete otherwise, and every available source equals the encoded one for all source data (symbolic)",
    "assumptions": ["BOUNDED: k + (n-k) <= 12; quick: every subset of k3r3 and k2r5ex, 128 of 256 of k4r4, 80 of k3r5e (even N1 < n-k), plus the recoverable sets with an all-unknown equation of six codes; thorough: every subset of nine codes; the dense solver separately at the 32/33-unknown word boundary; symbol length 1 byte (byte positions are independent in every kernel: C13)",
                    "the matrix construction is replaced by a stub that builds the constant matrix through the real of_mod2sparse_insert (which matrix the construction returns is C05's subject)",
                    "libc rand() (ML injection order of repair symbols) is a constant sequence per run; a few sequences are tried",
                    "outcome independent of order/API is decided only through the enumerated (subset, order, API) instances all agreeing with the set-only specification"],
    "trusted": [],
}


def jobs(tier, seed):
    # + the dense solver used by ML decoding against exact bit-matrix algebra at the 32/64-column word boundaries (C18's solver contract, re-run here:
    #   systems of that size cannot be reached through a whole session inside the bound)
    return lbc.c03_jobs(tier, seed, prop="C03") + [j for j in c18.jobs(tier, seed) if j.name.startswith(("solver.lower_triangular.32x31", "solver.upper_triangular.32x31", "solver.lower_triangular.33x32", "solver.upper_triangular.33x32"))]
