from ofvlib.core import Job

SYM = "src/lib_common/linear_binary_codes_utils/of_symbol.c"

INFO = {
    "explanation": "contracts of the seven symbol kernels enforced on the real functions",
    "assumptions": [],
    "trusted": [],
}


def jobs(tier, seed):
    js = []
    js.append(Job("xor1.all_sizes", "xor_one_into_one", "c13_add_to_symbol.c", ["of_add_to_symbol"],
                  repo_sources=[SYM], loops="of_add_to_symbol.json", timeout=900, mem_gb=8,
                  status="proved", bound="symbol_size <= 2^24 (harness constant; loops closed by loop contracts, no unwinding)"))
    return js
