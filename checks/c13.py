"""C13 — symbol kernels are exact for every length, operand count and alignment."""
from ofvlib.core import Job

SYM = "src/lib_common/linear_binary_codes_utils/of_symbol.c"

INFO = {
    "explanation": "function contracts of the seven symbol kernels (value at every byte, operands unchanged, nothing read or "
                   "written outside exact-size objects) enforced on the real functions. of_add_to_symbol: every size, loops closed "
                   "by loop contracts. Multi-operand XOR kernels: one loop-free run per (operand count, size). GF kernels: one "
                   "loop-free run per size, constant and contents symbolic.",
    "assumptions": [
        "alignment is modelled through CBMC's pointer encoding (object number | offset): a buffer at offset a of a fresh object has address = a mod 8; symbolic for of_add_to_symbol, one constant pair per run for the other kernels; unaligned 64/32-bit accesses behave as byte accesses (true on x86-64)",
        "GF kernels: 16 bytes of leading slack inside the dst/src objects because the kernels form a pointer before the buffer for sz < 15 (flat address space assumed); a read before the buffer is not detected, a write is",
        "GF(2^8) kernels are specified relative to the multiplication table they index (of_gf_2_8_mul_table / of_gf_mul_table); C14 proves the tables equal the field product",
        "of_addmul1 (legacy codec): table contents arbitrary (cbmc --nondet-static)",
    ],
    "trusted": [],
}

KNAME = {1: "of_addmul1", 2: "of_galois_field_2_8_addmul1", 3: "of_galois_field_2_4_addmul1", 4: "of_galois_field_2_4_addmul1_compact"}


def jobs(tier, seed):
    js = []
    js.append(Job("xor1.all_sizes", "xor_one_into_one", "c13_add_to_symbol.c", ["of_add_to_symbol"],
                  repo_sources=[SYM], loops="of_add_to_symbol.json", timeout=1500, mem_gb=8,
                  status="proved", bound="symbol_size <= 2^24 (harness constant); loops closed by loop contracts, no unwinding"))
    if tier == "quick":
        sizes = list(range(0, 18)) + [23, 24, 25, 31, 32, 33, 39, 40]
        counts = list(range(0, 10)) + [12, 15, 16, 17, 20]
        gsizes = list(range(0, 65))
        g8sizes = list(range(0, 19)) + [31, 32, 33, 47, 48, 49, 63, 64]
    else:
        sizes = list(range(0, 41))
        counts = list(range(0, 21))
        gsizes = list(range(0, 161))
        g8sizes = list(range(0, 161))
    x1sizes = list(range(0, 41)) if tier == "quick" else list(range(0, 161))
    for s in x1sizes:
        for ta in range(8):
            js.append(Job("xor1.size%d.align%d" % (s, ta), "xor_one_into_one_constant_size", "c13_add_to_symbol.c", ["of_add_to_symbol"], repo_sources=[SYM],
                          defines={"OFV_SIZE": s, "OFV_TA": ta, "OFV_FA": (3 * ta + s + seed) % 8}, unwind=s // 8 + 10, timeout=300, mem_gb=4, status="bounded",
                          bound="one run per (size %d..%d, target alignment 0..7); contents and ghost byte symbolic" % (x1sizes[0], x1sizes[-1])))
    for h, f, g in (("c13_add_from_multiple.c", "of_add_from_multiple_symbols", "xor_many_into_one"),
                    ("c13_add_to_multiple.c", "of_add_to_multiple_symbols", "xor_one_into_many")):
        for s in sizes:
            for c in counts:
                js.append(Job("%s.size%d.count%d" % (g, s, c), g, h, [f], repo_sources=[SYM],
                              defines={"OFV_SIZE": s, "OFV_COUNT": c, "OFV_TA": (s + 3 * c + seed) % 8, "OFV_FA": (5 * s + c + 1 + seed) % 8},
                              unwind=max(s // 8, c, 4) + 2,
                              timeout=300, mem_gb=3, status="bounded",
                              bound="one run per (count,size): sizes %d..%d (%d values), counts %d..%d (%d values); contents and ghost byte symbolic; target/source alignment one constant pair per run (varies with size, count, VERIF_SEED)"
                                    % (sizes[0], sizes[-1], len(sizes), counts[0], counts[-1], len(counts))))
    for k in (1, 2, 3, 4):
        ss = g8sizes if k in (2, 4) else gsizes
        for s in ss:
            extra = ["--nondet-static"] if k == 1 else []
            tu = {1: "src/lib_stable/reed-solomon_gf_2_8/of_reed-solomon_gf_2_8.c",
                  2: "src/lib_stable/reed-solomon_gf_2_m/galois_field_codes_utils/algebra_2_8.c",
                  3: "src/lib_stable/reed-solomon_gf_2_m/galois_field_codes_utils/algebra_2_4.c",
                  4: "src/lib_stable/reed-solomon_gf_2_m/galois_field_codes_utils/algebra_2_4.c"}[k]
            js.append(Job("gf.%s.size%d" % (KNAME[k], s), "gf_addmul_" + KNAME[k], "c13_gf_addmul.c", [KNAME[k]],
                          defines={"OFV_SIZE": s, "OFV_KERNEL": k, "OFV_TA": (3 * s + 1 + seed) % 8, "OFV_FA": (5 * s + 2 + seed) % 8},
                          unwind=max(20, s + 2),
                          solver="z3" if k in (1, 2) else "cadical", extra_cbmc=extra, tu_included=[tu], timeout=600, mem_gb=4, status="bounded",
                          bound="one run per size: %d..%d (%d values); field constant, all contents symbolic, every byte checked; dst/src alignment one constant pair per run"
                                % (ss[0], ss[-1], len(ss))))
    return js
