"""C04 — LDPC-Staircase streaming decoding = peeling closure, for any arrival order.  BOUNDED (small codes, enumerated arrival sequences, every prefix)."""
from checks import lbc

INFO = {
    "level": "model_checking",
    "explanation": "session contract of the real iterative (peeling) engine behind of_decode_with_new_symbol on small LDPC-Staircase codes: after EVERY "
                   "prefix of each enumerated arrival sequence (all n symbols in increasing, decreasing, repairs-first and shuffled orders, with "
                   "repetitions; a repeated symbol arrives in a different buffer) the set of available sources equals the source part of spec_peel(H, "
                   "received so far), completion is reported exactly when the closure holds all k sources and never reverts; every available source "
                   "equals the encoded one for all source data; engine invariants (every equation stays a true equation, counters match the matrix)",
    "assumptions": ["BOUNDED: k + (n-k) <= 12 (quick 12 codes, thorough 19), enumerated sequences: fixed orders, VERIF_SEED-selected shuffles with repetitions, and DIRECTED histories computed from the matrix (an arrival that brings two equations to the same single unknown, to different unknowns with a cascade, or five or more equations at once); symbol length 1 byte",
                    "the matrix construction is replaced by a stub that builds the constant matrix through the real of_mod2sparse_insert"],
    "trusted": [],
}


def jobs(tier, seed):
    return lbc.c04_jobs(tier, seed, prop="C04")
