"""C05 — the LDPC-Staircase matrix is the RFC 5170 matrix and depends only on (k, n, N1, seed).  BOUNDED (concrete parameter points)."""
from ofvlib.core import Job
from checks import c19

LB = "src/lib_common/linear_binary_codes_utils/"
SRCS = ["src/lib_stable/ldpc_staircase/of_ldpc_staircase_pchk.c", "src/lib_stable/ldpc_staircase/of_ldpc_staircase_api.c", "src/lib_common/of_openfec_api.c",
        LB + "binary_matrix/of_matrix_sparse.c", LB + "it_decoding/of_it_decoding.c", LB + "of_symbol.c", "src/lib_common/of_mem.c", "src/lib_common/of_rand.c"]
FUNCS = ["of_create_pchck_matrix_rfc5170_compliant", "of_ldpc_staircase_set_fec_parameters", "of_set_fec_parameters", "of_rfc5170_srand", "of_rfc5170_rand",
         "of_mod2sparse_insert", "of_mod2sparse_find"]

INFO = {
    "level": "model_checking",
    "explanation": "contract of the real of_set_fec_parameters / of_create_pchck_matrix_rfc5170_compliant for concrete (k, n-k, N1, seed): the session's matrix, "
                   "read back through the real row and column lists, equals spec_rfc5170_matrix (the RFC 5170 pseudo-code on a dense bit array, Park-Miller by "
                   "64-bit modular arithmetic), for encoder and decoder sessions, starting from an arbitrary (symbolic) prior PRNG state; the PRNG itself is "
                   "Park-Miller for every state (C19)",
    "assumptions": ["BOUNDED: one run per parameter point (k <= 10, n-k <= 7, N1 <= 6, five seeds incl. 1 and 2^31-2); other points are not decided",
                    "for k = 1 the RFC's 'row of degree 1' loop cannot terminate (a single column); the specification follows the code's guard (k > 1) there",
                    "interoperability with an independently built peer additionally needs the C19 contract (the generator is the minimal standard for every state) and C09 (invalid seeds rejected)"],
    "trusted": [],
}


def points(tier, seed):
    pts = [(4, 4, 3, 1), (4, 4, 4, 1), (2, 4, 3, 1), (1, 3, 3, 1), (3, 5, 3, 4), (5, 4, 3, 7), (2, 5, 5, 3), (6, 4, 3, 2), (2, 6, 3, 1), (3, 6, 3, 2),
           (8, 4, 3, 1), (2, 7, 7, 3), (4, 6, 5, 2), (3, 4, 4, 5), (5, 5, 3, 2147483646), (7, 3, 3, 5), (2, 3, 3, 1000), (10, 5, 3, 1), (1, 4, 3, 1), (6, 6, 4, 12345),
           # low code rates: extra entries are drawn after the last regular pick; even N1 with two or more extra entries
           (3, 7, 3, 1), (4, 8, 3, 1), (3, 6, 3, 5), (4, 7, 3, 2), (5, 9, 3, 1), (3, 7, 4, 1), (1, 7, 4, 1), (2, 9, 4, 1), (3, 8, 4, 2), (1, 5, 4, 3), (2, 7, 4, 5), (4, 9, 4, 7)]
    if tier != "quick":
        for k in range(1, 11):
            for r in range(3, 8):
                for n1 in range(3, min(r, 6) + 1):
                    if n1 * k + 2 * r + 4 > 62:
                        continue
                    for s in (1, 3 + 17 * k + r, 2147483646):
                        if (k + r + n1 + s) % 2 == 0 or s == 1:
                            pts.append((k, r, n1, s))
    out = []
    for p in pts:
        if p not in out:
            out.append(p)
    return out


def jobs(tier, seed, t=1, prop="matrix", group="ldpc_rfc5170_matrix", funcs=None):
    js = []
    for (k, r, n1, s) in points(tier, seed):
        js.append(Job("%s.k%d.r%d.N1_%d.seed%d" % (prop, k, r, n1, s), group, "c05_ldpc_matrix.c", funcs or FUNCS, repo_sources=SRCS,
                      defines={"OFV_T": t, "OFV_ROLE": 3, "OFV_K": k, "OFV_R": r, "OFV_N1": n1, "OFV_SEED": s, "OPENFEC_VERIF_SPARSE_BLOCK": 64},
                      unwind=110, object_bits=11, timeout=600, mem_gb=3, status="bounded",
                      bound="(k, n-k, N1, seed) = (%d, %d, %d, %d) is a harness constant; prior PRNG state%s symbolic" % (k, r, n1, s, " and all source data" if t == 2 else "")))
    if t == 1:
        # "including the Park-Miller generator": the generator's contracts for EVERY state and every maxv (C19's, re-run here; proved, not bounded)
        for j in c19.jobs(tier, seed):
            if j.name.startswith(("srand.", "rand.step", "rand.return_is_rfc_expression", "rand.ten_thousandth")):
                j.name = "prng." + j.name
                j.group = "prng_" + j.group
                js.append(j)
    return js
