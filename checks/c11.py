"""C11 — decoded-source-symbol callback contract (Reed-Solomon: API-layer contracts; LDPC-Staircase: BOUNDED session contract)."""
from checks import c10, lbc

INFO = dict(c10.INFO)
INFO["explanation"] = ("callback clauses of the Reed-Solomon API-layer contracts (callback.*): invoked exactly once per decoded source symbol with "
                       "(length, esi < k), never for a received one, result stored in the returned buffer or in a library allocation when it returns "
                       "NULL, and that buffer is what of_get_source_symbols_tab reports; callback modelled as a function that returns NULL or a fresh "
                       "buffer nondeterministically per ESI")
INFO["assumptions"] = ["LDPC-Staircase IT/ML callback paths: BOUNDED session contract on small codes, callback returning a fresh buffer / NULL / alternating, with and without the repair callback",
                       "of_rs_decode / of_rs_2m_decode contract as in C10"]


def jobs(tier, seed):
    return c10.api_jobs(tier, fns=(1, 3, 4), group_prefix="rs_callback") + lbc.cb_jobs(tier, seed, prop="C11")
