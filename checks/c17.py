"""C17 — sparse GF(2) matrix is a set of (row, column) pairs under any operation sequence (BOUNDED, small)."""
import itertools
from ofvlib.core import Job, DEFAULT_CHECKS

BM = "src/lib_common/linear_binary_codes_utils/binary_matrix/"
SRCS = [BM + "of_matrix_sparse.c", BM + "of_matrix_dense.c", BM + "of_matrix_convert.c", BM + "of_hamming_weight.c", "src/lib_common/of_mem.c"]
CHECKS = [c for c in DEFAULT_CHECKS if c != "--signed-overflow-check"] + ["--no-signed-overflow-check", "--memory-leak-check"]
FINALS = {0: "observe", 1: "copy", 2: "copyrows", 3: "copycols", 4: "copy_filled_matrix", 5: "dense_roundtrip"}
FN = {0: [], 1: ["of_mod2sparse_copy"], 2: ["of_mod2sparse_copyrows"], 3: ["of_mod2sparse_copycols"], 4: ["of_mod2sparse_copy_filled_matrix"],
      5: ["of_mod2sparse_to_dense", "of_mod2dense_to_sparse"]}
KN = "idcf"   # insert, delete(find+delete), clear, fill-all
RECYCLE_Q = ["3120", "320", "310", "3210"]
RECYCLE_T = ["3110", "3100", "3121", "3200"]

INFO = {
    "level": "model_checking",
    "explanation": "bounded: every sequence of <= N operations (kinds insert / find+delete / clear) with every in-range argument on a small matrix, "
                   "followed by one derived-matrix operation with every index vector, executed by CBMC on the real code (allocation blocks of 3 entries "
                   "through the OPENFEC_VERIF_SPARSE_BLOCK hook); after each sequence every cell, row and column is observed against the set model; "
                   "pointer checks and memory-leak check on",
    "assumptions": ["dimensions 2x3 (1x34 for the conversions), N <= 2 (quick) / 3 (thorough), plus the listed 4-operation recycling histories (fill, delete, clear, insert orders): longer histories and larger matrices are not decided",
                    "allocation succeeds (of_alloc_entry does not check calloc)"],
    "trusted": [],
}


def scen(pat, R, C, fin):
    n = 1
    for ch in pat:
        if ch in "01":
            n *= R * C
    import math
    n *= {0: 1, 1: 1, 2: R ** R, 3: C ** C, 4: math.factorial(R) * math.factorial(C), 5: 1}[fin]
    return n


def jobs(tier, seed):
    js = []

    def add(pat, fin, R=2, C=3, fix0=None, blk=3):
        d = {"OFV_ROWS": R, "OFV_COLS": C, "OFV_N": len(pat), "OFV_FINAL": fin, "OPENFEC_VERIF_SPARSE_BLOCK": blk}
        for i, k in enumerate(pat):
            d["OFV_K%d" % i] = k
        nm = "sparse.%dx%d.%s.%s" % (R, C, "".join(KN[int(k)] for k in pat) or "empty", FINALS[fin])
        total = scen(pat, R, C, fin)
        if fix0 is not None:
            d["OFV_FIX0"] = fix0
            nm += ".first%d" % fix0
            total //= R * C
        js.append(Job(nm, "sparse_sequences_then_" + FINALS[fin], "c17_sparse.c",
                      ["of_mod2sparse_allocate", "of_mod2sparse_insert", "of_mod2sparse_find", "of_mod2sparse_delete", "of_mod2sparse_clear", "of_mod2sparse_free",
                       "of_mod2sparse_empty_row", "of_mod2sparse_empty_col"] + FN[fin],
                      repo_sources=SRCS, defines=d, unwind=total + 40, timeout=3000, mem_gb=8, status="bounded", object_bits=16, checks=CHECKS,
                      bound="%dx%d matrix, blocks of %d entries, all argument tuples of the kind pattern enumerated in the run" % (R, C, blk)))

    pats = lambda n: ["".join(p) for p in itertools.product("012", repeat=n)]
    if tier == "quick":
        for n in (1, 2):
            for p in pats(n):
                add(p, 0)
        for fin in (1, 5):
            for p in ("00", "01", "02", "20"):
                add(p, fin)
        for f0 in range(6):
            add("00", 2, fix0=f0)
            add("0", 3, fix0=f0)
        add("3", 4, R=3, C=2)
        for f0 in range(6):
            add("31", 4, R=3, C=2, fix0=f0)
            add("0", 4, R=3, C=2, fix0=f0)
        add("3", 2)
        add("3", 3)
        # free-list recycling across block boundaries and across clear (6 entries = two blocks of 3): fill, delete an entry of either
        # block, (clear,) insert again - a free list that survives its block, or a block that survives its free list, shows here
        for p in RECYCLE_Q:
            add(p, 0)
        for f0 in (0, 31, 32, 33):
            add("0", 5, R=1, C=34, fix0=f0, blk=3)
    else:
        for n in (1, 2):
            for p in pats(n):
                add(p, 0)
        for p in pats(3):
            if p[0] == "2":
                add(p, 0)
            else:
                for f0 in range(6):
                    add(p, 0, fix0=f0)
        for fin in (1, 5):
            for p in pats(2):
                if p[0] == "2":
                    add(p, fin)
                else:
                    for f0 in range(6):
                        add(p, fin, fix0=f0)
        for f0 in range(6):
            for p in ("00", "01", "02"):
                add(p, 2, fix0=f0)
                add(p, 4, R=3, C=2, fix0=f0)
            add("0", 3, fix0=f0)
            add("00", 3, fix0=f0)
        for p in RECYCLE_Q + RECYCLE_T:
            add(p, 0)
        add("3", 4, R=3, C=2)
        for f0 in range(6):
            add("31", 4, R=3, C=2, fix0=f0)
            add("311", 4, R=3, C=2, fix0=f0)
        for f0 in range(34):
            add("0", 5, R=1, C=34, fix0=f0)
    return js
