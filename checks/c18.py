"""C18 — dense GF(2) matrix and linear solver agree with exact bit-matrix algebra."""
from ofvlib.core import Job, DEFAULT_CHECKS

BM = "src/lib_common/linear_binary_codes_utils/binary_matrix/"
SRCS = [BM + "of_matrix_dense.c", BM + "of_hamming_weight.c", "src/lib_common/of_mem.c"]
CHECKS = [c for c in DEFAULT_CHECKS if c != "--signed-overflow-check"] + ["--no-signed-overflow-check"]

INFO = {
    "explanation": "dense get/set/flip and popcount helpers proved for all dimensions/arguments; multi-row operations and the symbol-level "
                   "solver checked inside stated dimension bounds against a plain bit-matrix model",
    "assumptions": ["1<<31 in of_mod2_setbit1/0 wraps as gcc defines it (signed-overflow check off for these runs)",
                    "representation invariant of a dense matrix: bits beyond n_cols are zero (established by allocate, preserved by every operation checked here)"],
    "trusted": [],
}
OPS = {10: "clear", 11: "copy", 12: "copyrows", 13: "copycols", 14: "xor_rows", 15: "weights_and_emptiness", 16: "row_weight_ignore_first", 17: "hweight_array"}
FN = {10: ["of_mod2dense_clear"], 11: ["of_mod2dense_copy"], 12: ["of_mod2dense_copyrows"], 13: ["of_mod2dense_copycols"], 14: ["of_mod2dense_xor_rows"],
      15: ["of_mod2dense_row_weight", "of_mod2dense_row_is_empty", "of_mod2dense_col_weight"], 16: ["of_mod2dense_row_weight_ignore_first"], 17: ["of_hweight_array"]}


def jobs(tier, seed):
    js = []
    for op, nm in ((0, "get"), (1, "set"), (2, "flip")):
        js.append(Job("dense." + nm, "dense_cell_ops", "c18_dense.c", ["of_mod2dense_" + nm], repo_sources=SRCS, checks=CHECKS,
                      defines={"OFV_T": 1, "OFV_OP": op}, timeout=600, status="proved",
                      bound="n_rows <= 65536, n_cols <= 2^20 (harness caps on the allocation only; loop-free)"))
    js.append(Job("popcount.helpers", "popcount_helpers", "c18_dense.c", ["of_popcount_3", "of_hweight32", "of_hweight32_table", "of_hweight8_table", "of_hweight32_naive"],
                  repo_sources=SRCS, checks=CHECKS, defines={"OFV_T": 2}, unwind=70, timeout=900, status="proved", solver="cadical"))
    cols = [1, 31, 32, 33, 64, 65, 70] if tier == "quick" else [1, 2, 31, 32, 33, 63, 64, 65, 70, 96, 97, 100]
    rows = [1, 3] if tier == "quick" else [1, 2, 3, 5]
    for t, nm in OPS.items():
        cfgs = []
        for c in cols:
            for r in rows:
                if t == 11:      # copy into an equal or larger matrix
                    cfgs += [(r, c, r, c), (r, c, r + 1, c + 31)]
                elif t == 12:    # copyrows: destination has its own row count, at least as many columns
                    cfgs += [(r, c, r, c), (r, c, r + 1, c + 2), (r + 1, c, r, c + 33)]
                elif t == 13:    # copycols: destination has its own column count, at least as many rows
                    cfgs += [(r, c, r, c), (r, c, r + 1, min(c + 2, 70)), (r, c, r, max(c - 1, 1))]
                elif t == 14:    # xor_rows needs two distinct rows
                    cfgs += [(r + 1, c, r + 1, c)]
                else:
                    cfgs += [(r, c, r, c)]
        for (r, c, r2, c2) in sorted(set(cfgs)):
            js.append(Job("dense.%s.%dx%d.%dx%d" % (nm, r, c, r2, c2), "dense_multi_row_ops", "c18_dense.c", ["of_mod2dense_allocate", "of_mod2dense_get"] + FN[t],
                          repo_sources=SRCS, checks=CHECKS, defines={"OFV_T": t, "OFV_ROWS": r, "OFV_COLS": c, "OFV_ROWS2": r2, "OFV_COLS2": c2},
                          unwind=max(c, c2, r, r2) + 3, timeout=900, mem_gb=6, status="bounded", object_bits=12, solver="kissat" if t >= 15 else None,
                          bound="one run per dimension configuration (rows in %s, cols in %s); contents, index vectors, ghost cell symbolic" % (rows, cols)))
    # --- symbol-level solver
    LB = "src/lib_common/linear_binary_codes_utils/"
    SOLV = SRCS + [LB + "ml_decoding/of_ml_tool.c", LB + "of_symbol.c"]
    sfn = ["of_linear_binary_code_solve_dense_system", "of_linear_binary_code_triangularize_dense_system", "of_linear_binary_code_col_forward_elimination",
           "of_linear_binary_code_backward_substitution"]
    sym = [(1, 1), (2, 2), (3, 2), (3, 3), (4, 3)] if tier == "quick" else [(p, q) for q in range(1, 6) for p in range(q, q + 3)]
    for (p_, q_) in sym:
        js.append(Job("solver.symbolic.%dx%d" % (p_, q_), "solver_symbolic_matrix", "c18_solver.c", sfn, repo_sources=SOLV, checks=CHECKS,
                      defines={"OFV_P": p_, "OFV_Q": q_, "OFV_MODE": 0}, unwind=40, object_bits=12, timeout=1500, mem_gb=20, status="bounded", solver="kissat",
                      bound="p x q in %s, every matrix bit and right-hand side symbolic, symbol length 1" % (sym,)))
    conc = [(32, 31), (33, 32), (34, 33)] if tier == "quick" else [(q + 1, q) for q in (1, 2, 31, 32, 33, 63, 64, 65)]
    for (p_, q_, mode) in [(a, b, m) for (a, b) in conc for m in (1, 2)]:
        js.append(Job("solver.%s_triangular.%dx%d" % ("lower" if mode == 1 else "upper", p_, q_), "solver_word_boundaries", "c18_solver.c", sfn, repo_sources=SOLV, checks=CHECKS,
                      defines={"OFV_P": p_, "OFV_Q": q_, "OFV_MODE": mode}, unwind=p_ + 5, object_bits=12, timeout=1500 if tier == "quick" else 9000, mem_gb=8, status="bounded",
                      bound="concrete all-ones lower-triangular matrices with q in %s, right-hand sides symbolic" % ([q for _, q in conc],)))
    return js
