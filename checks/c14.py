"""C14 — the GF(2^4) and GF(2^8) tables are the fields they claim to be."""
from ofvlib.core import Job

LEG = "src/lib_stable/reed-solomon_gf_2_8/of_reed-solomon_gf_2_8.c"
GFC = "src/lib_stable/reed-solomon_gf_2_m/galois_field_codes_utils/of_galois_field_code.c"

INFO = {
    "explanation": "every table entry compared with shift-and-reduce multiplication modulo the primitive polynomial, table indices "
                   "left unconstrained over the whole finite domain (complete, not sampled)",
    "assumptions": ["log[0] is checked against the convention the code relies on (2^m-1), not against field arithmetic"],
    "trusted": [],
}


def jobs(tier, seed):
    js = []
    H = "c14_tables.c"

    def J(name, group, t, fns, **kw):
        d = {"OFV_T": t}
        d.update(kw.pop("defines", {}))
        kw.setdefault("timeout", 900)
        kw.setdefault("mem_gb", 6)
        kw.setdefault("unwind", 10)
        return Job(name, group, H, fns, defines=d, status="proved", **kw)
    js.append(J("gf16.mul", "gf16_tables", 1, []))
    js.append(J("gf16.opt_mul", "gf16_tables", 2, []))
    js.append(J("gf16.exp_log_inv", "gf16_tables", 3, []))
    for sl in range(16):
        js.append(J("gf256.mul.slice%x" % sl, "gf256_tables", 4, [], defines={"OFV_SLICE": sl}, solver="cadical"))
    js.append(J("gf256.exp_log_inv", "gf256_tables", 5, []))
    js.append(J("legacy.generate_gf", "legacy_tables", 6, ["of_generate_gf"], unwind=300, tu_included=[LEG], timeout=1500, mem_gb=12))
    js.append(J("legacy.mul_formula", "legacy_tables", 7, ["of_generate_gf", "of_modnn"], unwind=300, tu_included=[LEG], timeout=1500, mem_gb=12))
    js.append(J("modnn.gf2m", "index_reducers", 8, ["of_modnn"], unwind=300, tu_included=[GFC],
                bound="width-bounded loop unwound 300 times with unwinding assertion (complete for x <= 254*254+255)"))
    js.append(J("modnn.legacy", "index_reducers", 9, ["of_modnn"], unwind=300, tu_included=[LEG],
                bound="width-bounded loop unwound 300 times with unwinding assertion (complete for x <= 254*254+255)"))
    return js
