"""C10 — status codes and queries tell the truth about decoding progress (Reed-Solomon: inductive API-layer contracts; LDPC-Staircase: BOUNDED session contract)."""
from ofvlib.core import Job
from checks import lbc

API = "src/lib_common/of_openfec_api.c"
SRCS = [API, "src/lib_common/of_mem.c", "src/lib_stable/reed-solomon_gf_2_8/of_reed-solomon_gf_2_8_api.c",
        "src/lib_stable/reed-solomon_gf_2_m/of_reed-solomon_gf_2_m_api.c"]
RC = {1: [("of_rs_new", "stub_rs_new"), ("of_rs_free", "stub_rs_free"), ("of_rs_decode", "stub_rs_decode")],
      2: [("of_rs_2m_build_encoding_matrix", "stub_rs_2m_build_encoding_matrix"), ("of_rs_2m_decode", "stub_rs_2m_decode")]}
FNS = {1: "decode_with_new_symbol", 2: "set_available_symbols", 3: "finish_decoding", 4: "queries"}
REAL = {1: {1: ["of_decode_with_new_symbol", "of_rs_decode_with_new_symbol", "of_rs_finish_decoding"], 2: ["of_set_available_symbols", "of_rs_set_available_symbols"],
            3: ["of_finish_decoding", "of_rs_finish_decoding"], 4: ["of_is_decoding_complete", "of_get_source_symbols_tab", "of_rs_is_decoding_complete", "of_rs_get_source_symbols_tab"]},
        2: {1: ["of_decode_with_new_symbol", "of_rs_2_m_decode_with_new_symbol", "of_rs_2_m_finish_decoding"], 2: ["of_set_available_symbols", "of_rs_2_m_set_available_symbols"],
            3: ["of_finish_decoding", "of_rs_2_m_finish_decoding"], 4: ["of_is_decoding_complete", "of_get_source_symbols_tab", "of_rs_2_m_is_decoding_complete", "of_rs_2_m_get_source_symbols_tab"]}}

INFO = {
    "level": "model_checking",
    "explanation": "inductive step contracts of the Reed-Solomon API layer from an arbitrary state satisfying the representation invariant; one run per "
                   "(codec, function, k, n-k, length); received set, contents, ESI, role, callback behaviour symbolic; codec core replaced by a "
                   "precondition-checking contract stub",
    "assumptions": ["LDPC-Staircase part: BOUNDED session contract on small codes (status of every call, completion <=> all k sources, never reverts, pointer identity for sources submitted while unknown, finish OK <=> complete afterwards)",
                    "of_rs_decode / of_rs_2m_decode return OF_STATUS_OK and the source symbols whenever called within their precondition (that contract is C02's)",
                    "after set_available_symbols, of_is_decoding_complete stays false until of_finish_decoding even if all k sources were supplied (documented usage: finish must be called)"],
    "trusted": [],
}


def api_jobs(tier, fns=(1, 2, 3, 4), group_prefix="rs_api"):
    js = []
    nmax = 5 if tier == "quick" else 7
    lens = (2,) if tier == "quick" else (1, 2, 3)
    for c, cn in ((1, "rs28"), (2, "rs2m")):
        for fn in fns:
            for k in range(1, nmax):
                for r in range(1, nmax - k + 1):
                    for ln in lens:
                        js.append(Job("%s.%s.k%d.r%d.len%d" % (cn, FNS[fn], k, r, ln), "%s_%s_%s" % (group_prefix, cn, FNS[fn]), "c10_rs_api.c", REAL[c][fn],
                                      repo_sources=SRCS, replace_calls=RC[c], unwind=k + r + 3, object_bits=12, timeout=900, mem_gb=6, status="bounded",
                                      defines={"OFV_CODEC": c, "OFV_FN": fn, "OFV_NMAX": k + r, "OFV_K": k, "OFV_R": r, "OFV_LEN": ln, "OFV_LMAX": ln},
                                      bound="one run per (k, n-k, length) with n <= %d, length in %s; everything else symbolic" % (nmax, list(lens))))
    return js


def ldpc_jobs(tier, seed, prop="C10", pfx="c10"):
    ld = lbc.c03_jobs(tier, seed, prop=prop, prefix=pfx + "ml", group_prefix="lbc_status_finish") + lbc.c04_jobs(tier, seed, prop=prop, prefix=pfx + "it", group_prefix="lbc_status_stream")
    if tier == "quick":   # a slice here; the whole families run under C03 / C04
        ld = [j for j in ld if lbc.pick(j.name, 4, 0)]
    else:
        ld = [j for j in ld if lbc.pick(j.name, 3, 1)]
    # completion / status clauses with callbacks registered (the callback paths store the symbols differently)
    cb = lbc.cb_jobs(tier, seed, prop=prop, prefix=pfx + "cb", group_prefix="lbc_status_callbacks")
    return ld + (cb if tier != "quick" else [j for j in cb if lbc.pick(j.name, 2, 0)])


def jobs(tier, seed):
    return api_jobs(tier) + ldpc_jobs(tier, seed)
