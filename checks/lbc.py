"""job generator shared by C03, C04 and the LDPC-Staircase / 2D-parity halves of C01, C07, C08, C10, C11, C16:
session contract of the generic linear-binary-code decoding engines (contracts/c03_lbc_session.c)."""
import os, random
from ofvlib.core import Job, DEFAULT_CHECKS

LB = "src/lib_common/linear_binary_codes_utils/"
SRCS = ["src/lib_common/of_openfec_api.c", "src/lib_common/of_mem.c",
        LB + "it_decoding/of_it_decoding.c", LB + "ml_decoding/of_ml_decoding.c", LB + "ml_decoding/of_ml_tool.c",
        LB + "binary_matrix/of_matrix_sparse.c", LB + "binary_matrix/of_matrix_dense.c", LB + "binary_matrix/of_matrix_convert.c",
        LB + "binary_matrix/of_tools.c", LB + "of_symbol.c", LB + "of_create_pchk.c",
        "src/lib_stable/ldpc_staircase/of_ldpc_staircase_api.c", "src/lib_stable/2d_parity_matrix/of_2d_parity_api.c"]
FUNCS = ["of_linear_binary_code_decode_with_new_symbol", "of_linear_binary_code_finish_decoding_with_ml", "of_linear_binary_code_solve_dense_system",
         "of_decode_with_new_symbol", "of_set_available_symbols", "of_finish_decoding", "of_is_decoding_complete", "of_get_source_symbols_tab",
         "of_release_codec_instance", "of_set_fec_parameters", "of_create_codec_instance"]
FUNCS_LDPC = ["of_ldpc_staircase_set_fec_parameters", "of_ldpc_staircase_decode_with_new_symbol", "of_ldpc_staircase_set_available_symbols",
              "of_ldpc_staircase_finish_decoding", "of_ldpc_staircase_is_decoding_complete", "of_ldpc_staircase_release_codec_instance"]
FUNCS_2D = ["of_2d_parity_set_fec_parameters", "of_2d_parity_decode_with_new_symbol", "of_2d_parity_set_available_symbols",
            "of_2d_parity_finish_decoding", "of_2d_parity_is_decoding_complete", "of_2d_parity_release_codec_instance"]

# (k, n-k, N1, seed, extra_entries_added, rows): what the real of_create_pchck_matrix_rfc5170_compliant returned for these parameters at the
# pinned commit (dumped natively once; bit c of rows[r] <=> H[r][c], columns 0..n-k-1 repair, then the k sources).  Whether the construction
# returns these matrices is C05's subject, not this contract's: the engines are specified against whatever matrix the session holds.
LDPC = {
    "k1r3":   (1, 3, 3, 1, 0, [0x9, 0xb, 0xe]),
    "k2r3":   (2, 3, 3, 1, 0, [0x19, 0x1b, 0x1e]),
    "k3r3":   (3, 3, 3, 1, 0, [0x39, 0x3b, 0x3e]),
    "k3r4":   (3, 4, 3, 2, 0, [0x71, 0x33, 0x66, 0x5c]),
    "k4r4":   (4, 4, 3, 1, 0, [0xb1, 0xd3, 0x76, 0xec]),
    "k4r4e":  (4, 4, 4, 1, 0, [0xf1, 0xf3, 0xf6, 0xfc]),      # N1 even, no extra entries: the library injects the zero last repair symbol
    "k2r4x":  (2, 4, 3, 1, 1, [0x31, 0x33, 0x36, 0x3c]),      # extra entries added
    "k5r4":   (5, 4, 3, 7, 0, [0x1b1, 0xf3, 0x1c6, 0x17c]),
    "k3r5x":  (3, 5, 3, 4, 1, [0xa1, 0xa3, 0x66, 0xcc, 0x78]),
    "k3r5e":  (3, 5, 4, 1, 0, [0xe1, 0xc3, 0xa6, 0xec, 0x78]),
    "k2r5":   (2, 5, 5, 3, 0, [0x61, 0x63, 0x66, 0x6c, 0x78]),
    "k2r5ex": (2, 5, 4, 1, 1, [0x61, 0x63, 0x66, 0x6c, 0x78]),   # N1 even AND extra entries: the last repair symbol is NOT null, nothing may be injected   # N1 = 5: one arrival can bring five equations to degree one
    "k5r5":   (5, 5, 3, 1, 0, [0x2a1, 0x1a3, 0xe6, 0x34c, 0x358]),
    "k6r4":   (6, 4, 3, 2, 0, [0x371, 0x3b3, 0xf6, 0x3cc]),
    "k2r7":   (2, 7, 7, 3, 0, [0x181, 0x183, 0x186, 0x18c, 0x198, 0x1b0, 0x1e0]),
    "k4r6":   (4, 6, 5, 2, 0, [0x3c1, 0x343, 0x386, 0x1cc, 0x3d8, 0x2f0]),
    "k4r8x":  (4, 8, 3, 1, 1, [0x301, 0x903, 0x506, 0xc0c, 0x918, 0x530, 0x660, 0x6c0]),   # low rate: long peeling chains
    "k5r7":   (5, 7, 3, 3, 0, [0x981, 0xa03, 0xc06, 0x30c, 0x518, 0x4b0, 0x2e0]),
}
# 2D parity: (a, b): k = a*b, n-k = a+b
P2D = {"2x2": (2, 2), "2x3": (2, 3), "3x2": (3, 2), "1x3": (1, 3), "3x3": (3, 3), "2x1": (2, 1)}


def clist(v):
    return "{" + ",".join(str(x) for x in v) + "}"


GEN = r"pointer_dereference|array_bounds|pointer_arithmetic|overflow|division|pointer_primitives|deallocated|precondition_instance|\.free\.|memcpy|memset"
REL = {   # which clauses of the session contract decide which property
    "C01": r"^sound\.|^complete\.iff_all",
    "C03": r"^finish\.recovers|^finish\.incomplete|^sound\.|^set_params\.",
    "C04": r"^stream\.|^complete\.never|^sound\.|^inv\.|^set_params\.",
    "C07": r"^frame\.|" + GEN,
    "C08": r"memory-leak|^release\.|deallocated|\.free\.|precondition_instance",
    "C10": r"^decode\.returns|^set_available\.returns|^finish\.ok_iff|^finish\.failure_iff|^complete\.|^stream\.complete_iff|^pointer\.",
    "C11": r"^callback\.|^set_callbacks\.",
    "C16": None,
}


def job(prefix, group, codec, key, seq, api=0, finish=0, cb=0, rnd=(0,), ln=1, release=1, timeout=400, leak=True, prop=None):
    if codec == 3:
        k, r, n1, seed, extra, rows = LDPC[key]
        defs = {"OFV_CODEC": 3, "OFV_K": k, "OFV_R": r, "OFV_N1": n1, "OFV_SEED": seed, "OFV_EXTRA": extra, "OFV_ROWS": clist(rows)}
        rc = [("of_create_pchck_matrix_rfc5170_compliant", "stub_create_ldpc")]
        nm, fns = "ldpc", FUNCS + FUNCS_LDPC
        what = "LDPC-Staircase k=%d n-k=%d N1=%d seed=%d" % (k, r, n1, seed)
    else:
        a, b = P2D[key]
        k, r = a * b, a + b
        defs = {"OFV_CODEC": 5, "OFV_K": k, "OFV_R": r, "OFV_A": a, "OFV_B": b}
        rc = [("of_create_2D_pchk_matrix", "stub_create_2D")]
        nm, fns = "2d", FUNCS + FUNCS_2D + ["of_fill_2D_pchk_matrix"]
        what = "2D parity %dx%d (k=%d n-k=%d)" % (a, b, k, r)
    defs.update({"OFV_LEN": ln, "OFV_SEQ": clist(seq) if seq else "{0}", "OFV_API": api, "OFV_FINISH": finish, "OFV_CB": cb, "OFV_RAND": clist(rnd),
                 "OFV_RELEASE": release, "OPENFEC_VERIF_SPARSE_BLOCK": 64})
    if not seq:
        defs["OFV_EMPTY_HISTORY"] = 1
    name = "%s.%s.%s.%s%s%s%s.len%d.seq%s" % (prefix, nm, key, ("stream", "", "bulk")[api], ".finish" if finish else "", ".cb%d" % cb if cb else "",
                                              ".rnd%s" % "".join(str(x) for x in rnd) if tuple(rnd) != (0,) else "", ln, "_".join(str(x) for x in seq) or "none")
    return Job(name, group, "c03_lbc_session.c", fns, repo_sources=SRCS, replace_calls=rc, defines=defs,
               unwind=72, object_bits=11, timeout=timeout, mem_gb=3, status="bounded",
               checks=DEFAULT_CHECKS + (["--memory-leak-check"] if leak and release else []),
               relevant=REL.get(prop),
               bound="%s; history %s%s is a harness constant; symbol length %d; all source data symbolic" % (what, list(seq), " + finish" if finish else "", ln))


def pick(name, modulus, residue):
    """a slice of a job family that does not correlate with the received-set bit patterns (the families enumerate subsets in order)"""
    import zlib
    return zlib.crc32(name.split(".", 1)[-1].encode()) % int(modulus) == int(residue) % int(modulus)


def dedupe(js):
    seen, out = set(), []
    for j in js:
        if j.name not in seen:
            seen.add(j.name)
            out.append(j)
    return out


def subsets(n):
    return range(1 << n)


def seq_of(mask, n, order, rng):
    s = [i for i in range(n) if (mask >> i) & 1]
    if order == "dec":
        s.reverse()
    elif order == "rnd":
        rng.shuffle(s)
    return s


# ---- directed histories: arrivals that exercise the corner cases of the peeling engine (computed from the matrix, pure combinatorics) -------------------
def _esi_rows(key):
    k, r, n1, seed, extra, rows = LDPC[key]
    out = []
    for m in rows:
        e = 0
        for c in range(k + r):
            if (m >> c) & 1:
                e |= 1 << (c + k if c < r else c - r)
        out.append(e)
    return k, r, out


def _peel(H, known):
    ch = True
    while ch:
        ch = False
        for h in H:
            u = h & ~known
            if u and (u & (u - 1)) == 0:
                known |= u
                ch = True
    return known


def directed(key, limit, rng):
    """(received-before set S, arriving ESI y) pairs such that the arrival of y brings at least two equations to a single unknown at once:
    class A: the same unknown source in two equations, and it is not the last missing source; class B: different unknowns (cascade);
    class C: five or more equations at once (table growth)."""
    k, r, H = _esi_rows(key)
    n = k + r
    allsrc = (1 << k) - 1
    inject = 0
    if LDPC[key][2] % 2 == 0 and not LDPC[key][4]:
        inject = 1 << (n - 1)
    A, B, C = [], [], []
    for S in range(1 << n):
        K0 = _peel(H, S | inject)
        if (K0 & allsrc) == allsrc:
            continue
        for y in range(n):
            if (K0 >> y) & 1:
                continue
            K1 = K0 | (1 << y)
            singles = [h & ~K1 for h in H if (h >> y) & 1 and (h & ~K1) and ((h & ~K1) & ((h & ~K1) - 1)) == 0]
            if len(singles) < 2:
                continue
            fin = _peel(H, K1)
            same = [u for u in set(singles) if singles.count(u) >= 2 and u < (1 << k)]
            if same and (fin & allsrc) != allsrc:
                A.append((S, y))
            if len(set(singles)) >= 2:
                k2 = K1
                for u in singles:
                    k2 |= u
                if _peel(H, k2) != k2:      # ... and rebuilding them releases further symbols (a cascade inside the recursion)
                    B.append((S, y))
            if len(singles) >= 5:
                C.append((S, y))
    if os.environ.get('OFV_DEBUG_DIRECTED'):
        print(key, len(A), len(B), len(C))
    out = []
    for cls in (A, B, C):
        rng.shuffle(cls)
        out += cls[:limit]
    seqs = []
    for (S, y) in out:
        pre = [i for i in range(n) if (S >> i) & 1]
        rng.shuffle(pre)
        seqs.append(pre + [y])
    return seqs


def _full_rank(H, unknown, n):
    M = [h & unknown for h in H]
    rank = 0
    for e in range(n):
        if not (unknown >> e) & 1:
            continue
        p = None
        for r in range(rank, len(M)):
            if (M[r] >> e) & 1:
                p = r
                break
        if p is None:
            return False
        M[rank], M[p] = M[p], M[rank]
        for r in range(len(M)):
            if r != rank and (M[r] >> e) & 1:
                M[r] ^= M[rank]
        rank += 1
    return True


def all_unknown_equation_sets(key, limit, rng):
    """received sets that are recoverable although some equation has none of its symbols known (its constant term stays NULL until elimination)"""
    k, r, H = _esi_rows(key)
    n = k + r
    inject = (1 << (n - 1)) if (LDPC[key][2] % 2 == 0 and not LDPC[key][4]) else 0
    out = []
    for S in range(1 << n):
        K = _peel(H, S | inject)
        U = ((1 << n) - 1) & ~K
        if U == 0 or (K & ((1 << k) - 1)) == (1 << k) - 1 or not _full_rank(H, U, n):
            continue
        if any((h & K) == 0 for h in H):
            out.append(S)
    rng.shuffle(out)
    return out[:limit]


def c03_jobs(tier, seed, prop=None, prefix="ml", group_prefix="lbc_finish"):
    """every received subset of a few small codes, then of_finish_decoding; submission API, arrival order and the ML injection order vary"""
    rng = random.Random(seed)
    js = []
    fam = [("k3r3", 3), ("k4r4", 3), ("k2r5ex", 3), ("k3r5e", 3)] if tier == "quick" else [("k2r5ex", 3), ("k2r3", 3), ("k3r3", 3), ("k3r4", 3), ("k4r4", 3), ("k4r4e", 3), ("k2r4x", 3), ("k5r4", 3), ("k3r5x", 3)]
    for key, codec in fam:
        k, r = LDPC[key][0], LDPC[key][1]
        n = k + r
        for m in subsets(n):
            variants = [(rng.choice((0, 2)), rng.choice(("inc", "dec", "rnd")), [rng.randrange(r) for _ in range(r)])]
            if tier == "quick" and key == "k4r4" and (m * 7 + seed) % 16 >= 8:    # quick: 128 of the 256 subsets of the largest code (VERIF_SEED rotates them); thorough: all
                continue
            if tier == "quick" and key == "k3r5e" and ((m >> 7) & 1 or (m * 5 + seed) % 16 >= 10):   # even N1 < n-k (ML can succeed): the last repair symbol is injected anyway; 80 of the 128 remaining subsets
                continue
            if tier != "quick":
                variants = [(0, "inc", [0]), (2, "rnd", [rng.randrange(r) for _ in range(r)])]
            for api, order, rnd in variants:
                js.append(job(prefix, "%s_ldpc" % group_prefix, codec, key, seq_of(m, n, order, rng), api=api, finish=1, rnd=rnd, prop=prop))
    # recoverable sets in which an equation has no known symbol at all (NULL constant term in the solver), on codes that have such sets
    for key in (("k1r3", "k3r4", "k3r5x", "k4r6", "k4r8x", "k5r7") if tier == "quick" else ("k1r3", "k3r4", "k3r5x", "k3r5e", "k4r6", "k4r8x", "k5r7")):
        k, r = LDPC[key][0], LDPC[key][1]
        for i, m in enumerate(all_unknown_equation_sets(key, 3 if tier == "quick" else 15, rng)):
            js.append(job(prefix, "%s_ldpc" % group_prefix, 3, key, seq_of(m, k + r, ("inc", "dec", "rnd")[i % 3], rng), api=(0, 2)[i % 2], finish=1, rnd=[rng.randrange(r) for _ in range(r)], prop=prop))
    return dedupe(js)


def perms_with_dups(n, count, rng, dup=True):
    out = []
    for _ in range(count):
        p = list(range(n))
        rng.shuffle(p)
        if dup:
            for _ in range(2):
                p.insert(rng.randrange(1, len(p) + 1), p[rng.randrange(len(p))] if rng.random() < 0.5 else rng.randrange(n))
        out.append(p)
    return out


def c04_jobs(tier, seed, prop=None, prefix="it", group_prefix="lbc_stream"):
    """arrival sequences (all n symbols in some order, with repetitions): the per-prefix clauses cover every prefix of each sequence"""
    rng = random.Random(seed + 1)
    js = []
    fam = [("k2r3", 8), ("k3r3", 12), ("k4r4", 12), ("k4r4e", 6), ("k2r4x", 6), ("k2r5", 6), ("k5r4", 6), ("k2r5ex", 4), ("k3r5x", 2), ("k5r5", 2), ("k4r8x", 3), ("k5r7", 3)] if tier == "quick" else \
          [("k1r3", 8), ("k2r3", 24), ("k3r3", 40), ("k3r4", 30), ("k4r4", 60), ("k4r4e", 30), ("k2r4x", 20), ("k2r5", 30), ("k5r4", 30), ("k3r5x", 20), ("k3r5e", 20), ("k5r5", 20), ("k6r4", 20), ("k2r7", 10), ("k4r6", 10), ("k2r5ex", 12), ("k4r8x", 20), ("k5r7", 20)]
    for key, cnt in fam:
        k, r = LDPC[key][0], LDPC[key][1]
        n = k + r
        seqs = [list(range(n)), list(range(n - 1, -1, -1)), list(range(k, n)) + list(range(k))] + perms_with_dups(n, cnt, rng) + directed(key, 3 if tier == "quick" else 12, rng)
        for s in seqs:
            js.append(job(prefix, "%s_ldpc" % group_prefix, 3, key, s, api=0, finish=0, prop=prop))
    return dedupe(js)


def cb_jobs(tier, seed, prop=None, prefix="cb", group_prefix="lbc_callbacks"):
    """callback variants on streaming + finish histories"""
    rng = random.Random(seed + 2)
    js = []
    fam = [("k3r3", 6), ("k4r4", 8), ("k2r5", 6)] if tier == "quick" else [("k2r3", 10), ("k3r3", 16), ("k4r4", 24), ("k2r5", 16), ("k4r4e", 10), ("k5r4", 10), ("k2r7", 8)]
    for key, cnt in fam:
        k, r = LDPC[key][0], LDPC[key][1]
        n = k + r
        for i in range(cnt):
            m = rng.randrange(1 << n)
            s = seq_of(m, n, "rnd", rng)
            cbv = (1, 2, 3, 5, 6, 7)[i % 6]
            js.append(job(prefix, "%s_ldpc" % group_prefix, 3, key, s, api=(0, 0, 2)[i % 3], finish=(i % 2), cb=cbv, rnd=[rng.randrange(r) for _ in range(r)], ln=(1, 2)[i % 2], prop=prop))
        # repairs only, in both orders: every source is decoded, several equations reach degree one at once
        for s in (list(range(k, n)), list(range(n - 1, k - 1, -1))):
            for cbv in (1, 2, 7):
                js.append(job(prefix, "%s_ldpc" % group_prefix, 3, key, s, api=0, finish=1, cb=cbv, prop=prop))
    # directed histories (two equations on the same unknown, cascades, five equations at once) on the codes that have them
    for key in (("k3r5x", "k5r5", "k4r4", "k2r5", "k4r8x") if tier == "quick" else ("k3r5x", "k5r5", "k4r4", "k2r5", "k2r7", "k4r6", "k5r4", "k3r4", "k6r4", "k4r8x", "k5r7")):
        for i, sq in enumerate(directed(key, 4 if tier == "quick" else 14, rng)):
            js.append(job(prefix, "%s_ldpc" % group_prefix, 3, key, sq, api=0, finish=(i % 2), cb=(1, 2, 3, 5)[i % 4], prop=prop))
    return dedupe(js)


def release_jobs(tier, seed, prop=None, prefix="rel", group_prefix="lbc_release"):
    """release at any point of a session's life: every prefix length of a few histories, with and without finish"""
    rng = random.Random(seed + 3)
    js = []
    fam = [("k3r3", 2), ("k2r5", 2), ("k4r4e", 1)] if tier == "quick" else [("k2r3", 3), ("k3r3", 4), ("k4r4", 4), ("k2r5", 4), ("k4r4e", 3), ("k2r4x", 3), ("k2r7", 2)]
    for key, cnt in fam:
        k, r = LDPC[key][0], LDPC[key][1]
        n = k + r
        hist = [list(range(k, n)) + list(range(k)), list(range(n))] + perms_with_dups(n, cnt, rng, dup=False)   # repairs first; sources first (late repair symbols after completion); shuffles
        for h in hist:
            for cut in range(0, n + 1):
                for fin in (0, 1):
                    if tier == "quick" and (cut + fin) % 2:
                        continue
                    js.append(job(prefix, "%s_ldpc" % group_prefix, 3, key, h[:cut], api=(0, 2)[(cut + fin) % 2] if cut else 0, finish=fin, cb=(0, 1, 2)[cut % 3], rnd=[cut % r, 1, 0], prop=prop))
    return dedupe(js)


def p2d_jobs(tier, seed, prop=None, prefix="2d", group_prefix="2d_decoder"):
    """2D parity decoder: every received subset + finish (soundness, completeness, single loss), streaming orders, release"""
    rng = random.Random(seed + 4)
    js = []
    shapes = ["2x2", "2x1"] if tier == "quick" else ["2x2", "2x3", "3x2", "1x3", "2x1"]
    for key in shapes:
        a, b = P2D[key]
        n = a * b + a + b
        masks = list(subsets(n))
        if tier == "quick" and n > 6:
            full = (1 << n) - 1
            masks = sorted(set([full] + [full & ~(1 << i) for i in range(n)] + [full & ~(1 << i) & ~(1 << j) for i in range(n) for j in range(i)] + [rng.randrange(1 << n) for _ in range(24)]))
        if tier != "quick" and n > 8:
            full = (1 << n) - 1
            masks = sorted(set([full] + [full & ~(1 << i) for i in range(n)] + [full & ~(1 << i) & ~(1 << j) for i in range(n) for j in range(i)] + [rng.randrange(1 << n) for _ in range(150)]))
        for m in masks:
            api = rng.choice((0, 2))
            js.append(job(prefix, "%s_finish" % group_prefix, 5, key, seq_of(m, n, rng.choice(("inc", "dec", "rnd")), rng), api=api, finish=1,
                          cb=rng.choice((0, 0, 1, 2)), rnd=[rng.randrange(a + b) for _ in range(a + b)], prop=prop))
        k2 = a * b
        for s in [list(range(k2, n)) + list(range(k2)), list(range(n - 1, -1, -1)), list(range(n))] + perms_with_dups(n, 6 if tier == "quick" else 20, rng):
            js.append(job(prefix, "%s_stream" % group_prefix, 5, key, s, api=0, finish=0, prop=prop))
            if s[0] != 0:   # the same order, stopped after the first k symbols that complete or not, then finish + release
                js.append(job(prefix, "%s_stream" % group_prefix, 5, key, s[:k2 + 1], api=0, finish=1, cb=1, prop=prop))
    return dedupe(js)
