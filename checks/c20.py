"""C20 — eperftool block partitioning follows RFC 5052."""
from ofvlib.core import Job

INFO = {
    "level": "model_checking",
    "explanation": "contract of of_compute_blocking_struct on the real translation unit (blocking_struct.c included unmodified), every (B,L,E) "
                   "of a box symbolic, doubles encoded bit-precisely; plus a contract of the static helper double_to_closest_int for every double",
    "assumptions": ["outside the (B,L,E) box the top-level contract is not decided: there is no unbounded route for double division on the installed back ends",
                    "pencil-and-paper bound |A_fraction*N - I| < 2^-20 for T < 2^32 links the helper contract to the top-level property outside the box (not machine-checked)"],
    "trusted": [],
}
CC = ["-I/repo", "-I/repo/applis/eperftool"]


def jobs(tier, seed):
    import os
    repo = os.environ.get("OFV_REPO", "/repo")
    cc = ["-I" + repo, "-I" + repo + "/applis/eperftool"]
    fns = ["of_compute_blocking_struct", "double_to_closest_int"]
    js = []
    js.append(Job("closest_int.helper", "double_to_closest_int", "c20_blocking.c", ["double_to_closest_int"], defines={"OFV_T": 2, "OFV_BMAX": 1, "OFV_LMAX": 1, "OFV_EMAX": 1},
                  extra_cc=cc, native_sources=[], timeout=900, mem_gb=8, status="proved", solver="kissat"))
    if tier == "quick":
        js.append(Job("blocking.box255", "blocking_struct_box", "c20_blocking.c", fns, defines={"OFV_T": 1, "OFV_BMAX": 255, "OFV_LMAX": 255, "OFV_EMAX": 255},
                      extra_cc=cc, native_sources=[], timeout=1500, mem_gb=16, status="bounded", solver="kissat", bound="1 <= B, L, E <= 255 (every triple)"))
    else:
        for sl in range(8):
            js.append(Job("blocking.box1023.Lslice%d" % sl, "blocking_struct_box", "c20_blocking.c", fns,
                          defines={"OFV_T": 1, "OFV_BMAX": 1023, "OFV_LMAX": 1023, "OFV_EMAX": 1023, "OFV_LSLICE_SHIFT": 7, "OFV_LSLICE": sl},
                          extra_cc=cc, native_sources=[], timeout=6000, mem_gb=12, status="bounded", solver="kissat", bound="1 <= B, L, E <= 1023 (every triple; sliced on the top bits of L)"))
    return js
