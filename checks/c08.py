"""C08 — a released session leaves nothing behind (Reed-Solomon and LDPC-Staircase sessions, BOUNDED)."""
from ofvlib.core import Job, DEFAULT_CHECKS
from checks import lbc

API = "src/lib_common/of_openfec_api.c"
SRCS = [API, "src/lib_common/of_mem.c", "src/lib_stable/reed-solomon_gf_2_8/of_reed-solomon_gf_2_8_api.c",
        "src/lib_stable/reed-solomon_gf_2_m/of_reed-solomon_gf_2_m_api.c", "src/lib_stable/reed-solomon_gf_2_m/galois_field_codes_utils/of_galois_field_code.c",
        "src/lib_stable/reed-solomon_gf_2_m/galois_field_codes_utils/algebra_2_4.c", "src/lib_stable/reed-solomon_gf_2_m/galois_field_codes_utils/algebra_2_8.c"]
RC = {1: [("of_rs_new", "stub_rs_new"), ("of_rs_free", "stub_rs_free"), ("of_rs_decode", "stub_rs_decode"), ("of_rs_encode", "stub_rs_encode")],
      2: [("of_rs_2m_build_encoding_matrix", "stub_rs_2m_build_encoding_matrix"), ("of_rs_2m_decode", "stub_rs_2m_decode"), ("of_rs_2m_encode", "stub_rs_2m_encode")]}

INFO = {
    "level": "model_checking",
    "explanation": "whole-session contract on tiny Reed-Solomon instances: every protocol-conforming history of <= N calls with release at an arbitrary "
                   "point; cbmc memory-leak check + pointer checks; codec core replaced by allocation-faithful stubs",
    "assumptions": ["LDPC-Staircase sessions: small codes, release after every prefix of a few histories (both APIs, with/without finish, callback returning a buffer or NULL); the matrix construction is replaced by a stub that allocates through the real of_mod2sparse_allocate/insert", "allocation-faithful stubs stand for of_rs_new/of_rs_free and of_rs_2m_build_encoding_matrix (what they allocate is what the real release frees)"],
    "trusted": [],
}


def jobs(tier, seed):
    js = []
    steps = 3 if tier == "quick" else 4
    shapes = [(1, 1), (2, 2)] if tier == "quick" else [(1, 1), (2, 1), (2, 2), (3, 2)]
    for c, nm in ((1, "rs28"), (2, "rs2m")):
        for (k, r) in shapes:
            js.append(Job("session.%s.k%d.r%d.steps%d" % (nm, k, r, steps), "rs_session_release_" + nm, "c08_rs_session.c",
                          ["of_create_codec_instance", "of_release_codec_instance", "of_set_fec_parameters", "of_build_repair_symbol", "of_decode_with_new_symbol",
                           "of_set_available_symbols", "of_finish_decoding", "of_get_source_symbols_tab"],
                          repo_sources=SRCS, replace_calls=RC[c], defines={"OFV_CODEC": c, "OFV_K": k, "OFV_R": r, "OFV_LEN": 2, "OFV_STEPS": steps},
                          unwind=k + r + 3, object_bits=12, timeout=1800, mem_gb=10, status="bounded", solver="cadical", native=False,
                          checks=DEFAULT_CHECKS + ["--memory-leak-check"],
                          bound="k=%d, n-k=%d, length 2, histories of <= %d calls, release at any point" % (k, r, steps)))
    js += lbc.release_jobs(tier, seed, prop="C08") + [j for j in lbc.cb_jobs(tier, seed, prop="C08", prefix="relcb", group_prefix="lbc_release_callbacks") if tier != "quick" or lbc.pick(j.name, 2, 0)]
    return js
