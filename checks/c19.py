"""C19 — the RFC 5170 pseudo-random generator is the Park-Miller minimal standard."""
from ofvlib.core import Job

RAND = "src/lib_common/of_rand.c"

INFO = {
    "level": "proof",
    "explanation": "contracts of of_rfc5170_srand / of_rfc5170_rand on the real functions, all 2^31-2 states and all 64-bit maxv symbolic; "
                   "the modular step is stated with an explicit quotient witness and a code-independent splitting lemma. The two "
                   "floating-point sub-claims (range 0..maxv-1, exact floor) are decided only for maxv <= bound and are reported as a "
                   "bounded group, not as proof.",
    "assumptions": [
        "sub-claims 'return in 0..maxv-1' and 'return == floor(s'*maxv/(2^31-1))' are decided only for maxv up to the stated bound (double multiply/divide with symbolic 24-bit maxv does not terminate on any installed back end); beyond it they are undecided by this technique",
    ],
    "trusted": ["CBMC's bit-precise IEEE-754 double model (round-to-nearest-even) for the return expression"],
}


def jobs(tier, seed):
    H = "c19_rand.c"
    js = []

    def J(name, group, t, fns, **kw):
        d = {"OFV_T": t}
        d.update(kw.pop("defines", {}))
        kw.setdefault("timeout", 1200)
        kw.setdefault("mem_gb", 8)
        kw.setdefault("status", "proved")
        return Job(name, group, H, fns, defines=d, tu_included=[RAND], **kw)
    js.append(J("srand.accepts_exactly_valid_seeds", "srand", 1, ["of_rfc5170_srand"]))
    js.append(J("rand.step.A_code_vs_split_product", "rand_state_step", 2, ["of_rfc5170_rand"], solver="kissat"))
    js.append(J("rand.step.B_split_product_lemma", "rand_state_step", 3, [], solver="cvc5"))
    js.append(J("rand.return_is_rfc_expression", "rand_return_value", 4, ["of_rfc5170_rand"], solver="cvc5"))
    js.append(J("rand.ten_thousandth_state", "rand_sequence", 5, ["of_rfc5170_srand", "of_rfc5170_rand"], unwind=10002,
                bound="constant-bound loop of 10000 iterations executed exactly"))
    mv = 15 if tier == "quick" else 255
    js.append(J("rand.return_range_and_floor.maxv_le_%d" % mv, "rand_return_range_bounded", 6, ["of_rfc5170_rand"],
                defines={"OFV_MAXV": mv}, solver="kissat", status="bounded", timeout=3000,
                bound="maxv <= %d, all 2^31-2 states" % mv))
    return js
