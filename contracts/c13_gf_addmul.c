/* C13 — contracts of the GF multiply-accumulate kernels, enforced on the real functions:
 *   OFV_KERNEL 1: of_addmul1                           (static, of_reed-solomon_gf_2_8.c, reached by TU inclusion)
 *   OFV_KERNEL 2: of_galois_field_2_8_addmul1          (algebra_2_8.c)
 *   OFV_KERNEL 3: of_galois_field_2_4_addmul1          (algebra_2_4.c; one GF(2^4) element per byte)
 *   OFV_KERNEL 4: of_galois_field_2_4_addmul1_compact  (algebra_2_4.c; two GF(2^4) elements per byte)
 *
 *  requires  dst, src: distinct objects whose last sz bytes are the operands (EXACT end; see slack below);
 *            c any field constant (any byte for GF(2^8), c < 16 for GF(2^4));
 *            kernel 3 only: every src byte < 16 (its documented domain: one element per byte)
 *  ensures   for every k < sz:
 *              k1:  dst[k] == old(dst[k]) ^ of_gf_mul_table[c][src[k]]      (table contents arbitrary here;
 *              k2:  dst[k] == old(dst[k]) ^ of_gf_2_8_mul_table[c][src[k]]   C14 proves table == field product)
 *              k3:  dst[k] == old(dst[k]) ^ of_gf_2_4_mul_table[c][src[k]]
 *              k4:  dst[k] == old ^ ((of_gf_2_4_mul_table[c][src>>4] << 4) | of_gf_2_4_mul_table[c][src & 15])
 *            src[k] unchanged; the leading slack of dst unchanged (no write before the buffer)
 *  frame     pointer/bounds checks on objects that END exactly at sz
 *  BOUNDED: OFV_SIZE is a harness constant (one run per size), c and all contents symbolic, every byte position checked.
 *
 * TRUSTED: the kernels form lim = &dst[sz-16+1], a pointer before the buffer when sz < 15; on the flat x86-64
 * address space this is harmless, in CBMC's object model the comparison dst < lim then misbehaves. dst and src
 * are therefore given 16 bytes of leading slack inside the same object (asserted unchanged); a READ before the
 * buffer is not detected, a write is.
 */
#include "ofv.h"
#if OFV_KERNEL == 1
#include "lib_stable/reed-solomon_gf_2_8/of_reed-solomon_gf_2_8.c"
#define KERNEL of_addmul1
#define ROW(c) of_gf_mul_table[c]
#elif OFV_KERNEL == 2
#include "lib_stable/reed-solomon_gf_2_m/galois_field_codes_utils/algebra_2_8.c"
#define KERNEL of_galois_field_2_8_addmul1
#define ROW(c) of_gf_2_8_mul_table[c]
#elif OFV_KERNEL == 3
#include "lib_stable/reed-solomon_gf_2_m/galois_field_codes_utils/algebra_2_4.c"
#define KERNEL of_galois_field_2_4_addmul1
#define ROW(c) of_gf_2_4_mul_table[c]
#elif OFV_KERNEL == 4
#include "lib_stable/reed-solomon_gf_2_m/galois_field_codes_utils/algebra_2_4.c"
#define KERNEL of_galois_field_2_4_addmul1_compact
#define ROW(c) of_gf_2_4_mul_table[c]
#else
#error "OFV_KERNEL"
#endif
#ifndef OFV_SIZE
#error "OFV_SIZE"
#endif
#ifndef OFV_TA
#define OFV_TA 0
#define OFV_FA 0
#endif
#define SLACK 16
#define DSLACK (SLACK + OFV_TA)	/* dst at address = OFV_TA mod 8 */
#define SSLACK (SLACK + OFV_FA)	/* src at address = OFV_FA mod 8 */

UINT32 g_s;
UINT8 in_c, in_slack_s;
UINT8 in_dst[OFV_SIZE + 1], in_src[OFV_SIZE + 1];

int main(void)
{
	UINT32 i;
	IN(UINT8, in_c);
#if OFV_KERNEL >= 3
	REQUIRES(in_c < 16);
#endif
	IN(UINT32, g_s);
	REQUIRES(g_s < DSLACK);
#ifdef OFV_NATIVE
	UINT8 *dbase = OFV_MALLOC(DSLACK + OFV_SIZE), *sbase = OFV_MALLOC(SSLACK + OFV_SIZE);
#else
	/* objects of exact size with nondeterministic contents; arrays rather than malloc so that the kernels'
	 * pointer comparisons (dst < lim) are decided by constant propagation and the run is loop-free */
	UINT8 dobj[DSLACK + OFV_SIZE], sobj[SSLACK + OFV_SIZE];
	UINT8 *dbase = dobj, *sbase = sobj;
#endif
	UINT8 *dst = dbase + DSLACK, *src = sbase + SSLACK;
#if OFV_KERNEL == 1
#ifdef OFV_NATIVE
	of_rs_init();
#else
	/* of_gf_mul_table has arbitrary contents here (cbmc --nondet-static): the contract is relative to the table */
#endif
#endif
	/* entry values of every byte (the size is a constant, so the for-all is written out; no ghost index needed) */
	for (i = 0; i < OFV_SIZE; i++) {
		IN_MEM_I(UINT8, in_dst, i, dst[i]);
		IN_MEM_I(UINT8, in_src, i, src[i]);
#if OFV_KERNEL == 3
		REQUIRES(in_src[i] < 16);
#endif
	}
	IN_MEM(UINT8, in_slack_s, dbase[g_s]);

	KERNEL(dst, src, in_c, OFV_SIZE);

	for (i = 0; i < OFV_SIZE; i++) {
#if OFV_KERNEL == 4
		UINT8 want = in_dst[i] ^ (UINT8)((ROW(in_c)[in_src[i] >> 4] << 4) | ROW(in_c)[in_src[i] & 15]);
#else
		UINT8 want = in_dst[i] ^ ROW(in_c)[in_src[i]];
#endif
		ENSURES(dst[i] == want, "post.value");
		ENSURES(src[i] == in_src[i], "post.src_unchanged");
	}
	ENSURES(dbase[g_s] == in_slack_s, "post.nothing_written_before_dst");
	REACHED("after_call");
	OFV_MAIN_RETURN;
}
