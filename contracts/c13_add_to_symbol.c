/* C13 — contract of of_add_to_symbol(to, from, symbol_size)  [of_symbol.c], enforced on the real function.
 *
 *  requires  to, from: distinct objects of EXACTLY symbol_size bytes; symbol_size <= OFV_MAX_SIZE
 *  ensures   for every byte index g_k < symbol_size:  to[g_k] == old(to[g_k]) ^ from[g_k]        (post.value)
 *            from[g_k] unchanged                                                                  (post.from_unchanged)
 *  frame     nothing but to[0..symbol_size) is written, nothing beyond symbol_size is read or written:
 *            loop assigns clauses + pointer/bounds checks on the exact-size objects
 *  g_k is a ghost index left unconstrained, which makes the postcondition the for-all statement.
 *  Loops are closed by the loop contracts in loops/of_add_to_symbol.json: no unwinding bound.
 */
#include "ofv.h"
#include "of_openfec_api.h"
#include "linear_binary_codes_utils/of_linear_binary_code.h"

#ifndef OFV_MAX_SIZE
#define OFV_MAX_SIZE 16777216u
#endif

UINT32 in_size, g_k;
UINT8 in_to_k, in_from_k;

int main(void)
{
	IN(UINT32, in_size);
	REQUIRES(in_size <= OFV_MAX_SIZE);
	IN(UINT32, g_k);
	REQUIRES(g_k < in_size);
	UINT8 *to = OFV_MALLOC(in_size), *from = OFV_MALLOC(in_size);
	REQUIRES(to != NULL && from != NULL);
	IN_MEM(UINT8, in_to_k, to[g_k]);
	IN_MEM(UINT8, in_from_k, from[g_k]);

	of_add_to_symbol(to, from, in_size);

	ENSURES(to[g_k] == (UINT8)(in_to_k ^ in_from_k), "post.value");
	ENSURES(from[g_k] == in_from_k, "post.from_unchanged");
	REACHED("after_call");
	OFV_MAIN_RETURN;
}
