/* C13 — contract of of_add_to_symbol(to, from, symbol_size)  [of_symbol.c], enforced on the real function.
 *
 *  requires  to, from: distinct buffers of EXACTLY symbol_size bytes (objects end at symbol_size), at every alignment
 *            to % 8 == in_ta, from % 8 == in_fa (in_ta/in_fa bytes of leading slack, asserted unchanged; CBMC's pointer
 *            value is object|offset, so offset a inside a fresh object IS address = a mod 8); symbol_size <= OFV_MAX_SIZE
 *  ensures   for every byte index g_k < symbol_size:  to[g_k] == old(to[g_k]) ^ from[g_k]        (post.value)
 *            from[g_k] unchanged                                                                  (post.from_unchanged)
 *  frame     nothing but to[0..symbol_size) is written, nothing beyond symbol_size is read or written:
 *            loop assigns clauses + pointer/bounds checks on the exact-size objects
 *  g_k is a ghost index left unconstrained, which makes the postcondition the for-all statement.
 *  Loops are closed by the loop contracts in loops/of_add_to_symbol.json: no unwinding bound.
 */
#include "ofv.h"
#include "of_openfec_api.h"
#include "linear_binary_codes_utils/of_linear_binary_code.h"

#ifndef OFV_MAX_SIZE
#define OFV_MAX_SIZE 16777216u
#endif

UINT32 in_size, g_k, in_ta, in_fa, g_s;
UINT8 in_to_k, in_from_k, in_slack_s;

int main(void)
{
#ifdef OFV_SIZE
	in_size = OFV_SIZE;	/* bounded variant: size is a harness constant, no loop contracts needed */
#else
	IN(UINT32, in_size);
	REQUIRES(in_size >= 1);	/* size 0 is covered by the constant-size runs (the loop invariants mention byte g_k) */
#endif
	REQUIRES(in_size <= OFV_MAX_SIZE);
#ifdef OFV_TA
	in_ta = OFV_TA;		/* bounded variant: alignments are harness constants too */
	in_fa = OFV_FA;
#else
	IN(UINT32, in_ta);
	IN(UINT32, in_fa);
#endif
	IN(UINT32, g_s);
	REQUIRES(in_ta < 8 && in_fa < 8 && (in_ta == 0 ? g_s == 0 : g_s < in_ta));
	IN(UINT32, g_k);
	REQUIRES(in_size == 0 ? g_k == 0 : g_k < in_size);
	UINT8 *tbase = OFV_MALLOC(in_ta + in_size), *fbase = OFV_MALLOC(in_fa + in_size);
	REQUIRES(tbase != NULL && fbase != NULL);
	UINT8 *to = tbase + in_ta, *from = fbase + in_fa;
	if (in_size > 0) {
		IN_MEM(UINT8, in_to_k, to[g_k]);
		IN_MEM(UINT8, in_from_k, from[g_k]);
	}
	if (in_ta > 0)
		IN_MEM(UINT8, in_slack_s, tbase[g_s]);

	of_add_to_symbol(to, from, in_size);

	if (in_size > 0) {
		ENSURES(to[g_k] == (UINT8)(in_to_k ^ in_from_k), "post.value");
		ENSURES(from[g_k] == in_from_k, "post.from_unchanged");
	}
	if (in_ta > 0)
		ENSURES(tbase[g_s] == in_slack_s, "post.nothing_written_before_to");
	REACHED("after_call");
	OFV_MAIN_RETURN;
}
