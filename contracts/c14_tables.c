/* C14 — every GF table agrees entry by entry with GF(2)[x]/(x^4+x+1) and GF(2)[x]/(x^8+x^4+x^3+x^2+1), generator x.
 * Index variables are unconstrained inside the table's domain: each run is complete over the finite domain.
 * The tables are the real ones: static const initialisers of algebra_2_4.h / algebra_2_8.h (header included),
 * or the static arrays of of_reed-solomon_gf_2_8.c filled by the real of_generate_gf / of_rs_init_mul_table
 * (translation unit included).
 *
 * OFV_T selects the contract group:
 *   1 gf16.mul      2 gf16.opt_mul   3 gf16.exp_log_inv
 *   4 gf256.mul (slice OFV_SLICE = high nibble of a)   5 gf256.exp_log_inv
 *   6 legacy.generate_gf (exp/log/inverse after the real of_generate_gf from arbitrary initial contents)
 *   7 legacy.mul_formula (exp[modnn(log a + log b)] == a*b on the generated tables)
 *   8 modnn of the GF(2^m) codec   9 of_modnn of the legacy codec
 */
#include "ofv.h"
#include "spec_gf.h"
#if OFV_T <= 5
#include "of_openfec_api.h"
#include "lib_stable/reed-solomon_gf_2_m/of_reed-solomon_gf_2_m_includes.h"
#elif OFV_T == 8
#include "lib_stable/reed-solomon_gf_2_m/galois_field_codes_utils/of_galois_field_code.c"
#else
#include "lib_stable/reed-solomon_gf_2_8/of_reed-solomon_gf_2_8.c"
#endif

UINT32 in_a, in_b;

int main(void)
{
	IN(UINT32, in_a);
	IN(UINT32, in_b);
#if OFV_T == 1
	REQUIRES(in_a < 16 && in_b < 16);
	ENSURES(sizeof(of_gf_2_4_mul_table) == 16 * 16, "gf16.mul.size");
	ENSURES(of_gf_2_4_mul_table[in_a][in_b] == spec_mul4(in_a, in_b), "gf16.mul.entry");
#elif OFV_T == 2
	REQUIRES(in_a < 16 && in_b < 256);
	ENSURES(sizeof(of_gf_2_4_opt_mul_table) == 16 * 256, "gf16.opt_mul.size");
	ENSURES(of_gf_2_4_opt_mul_table[in_a][in_b] == ((spec_mul4(in_a, in_b >> 4) << 4) | spec_mul4(in_a, in_b & 15)), "gf16.opt_mul.entry");
#elif OFV_T == 3
	REQUIRES(in_a < 16 && in_b < 15);
	ENSURES(sizeof(of_gf_2_4_exp) >= 15 && sizeof(of_gf_2_4_log) >= 16 && sizeof(of_gf_2_4_inv) >= 16, "gf16.tables.size");
	ENSURES(of_gf_2_4_exp[0] == 1, "gf16.exp.zero");
	ENSURES(in_b + 1 >= 15 || of_gf_2_4_exp[in_b + 1] == spec_mul4(of_gf_2_4_exp[in_b], 2), "gf16.exp.step");	/* generator x */
	ENSURES(spec_mul4(of_gf_2_4_exp[14], 2) == 1, "gf16.exp.order");
	ENSURES(of_gf_2_4_log[of_gf_2_4_exp[in_b]] == in_b, "gf16.log.of_exp");
	ENSURES(in_a == 0 || (of_gf_2_4_log[in_a] < 15 && of_gf_2_4_exp[of_gf_2_4_log[in_a]] == in_a), "gf16.exp.of_log");
	ENSURES(in_a == 0 || spec_mul4(in_a, of_gf_2_4_inv[in_a]) == 1, "gf16.inv.entry");
	ENSURES(of_gf_2_4_inv[0] == 0, "gf16.inv.zero");
#elif OFV_T == 4
	REQUIRES(in_a < 256 && in_b < 256 && (in_a >> 4) == OFV_SLICE);
	ENSURES(sizeof(of_gf_2_8_mul_table) == 256 * 256, "gf256.mul.size");
	ENSURES(of_gf_2_8_mul_table[in_a][in_b] == spec_mul8(in_a, in_b), "gf256.mul.entry");
#elif OFV_T == 5
	REQUIRES(in_a < 256 && in_b < 255);
	ENSURES(sizeof(of_gf_2_8_exp) >= 255 && sizeof(of_gf_2_8_log) >= 256 * sizeof(of_gf_2_8_log[0]) && sizeof(of_gf_2_8_inv) >= 256, "gf256.tables.size");
	ENSURES(of_gf_2_8_exp[0] == 1, "gf256.exp.zero");
	ENSURES(in_b + 1 >= 255 || of_gf_2_8_exp[in_b + 1] == spec_mul8(of_gf_2_8_exp[in_b], 2), "gf256.exp.step");
	ENSURES(spec_mul8(of_gf_2_8_exp[254], 2) == 1, "gf256.exp.order");
	ENSURES(of_gf_2_8_log[of_gf_2_8_exp[in_b]] == (int)in_b, "gf256.log.of_exp");
	ENSURES(in_a == 0 || (of_gf_2_8_log[in_a] >= 0 && of_gf_2_8_log[in_a] < 255 && of_gf_2_8_exp[of_gf_2_8_log[in_a]] == in_a), "gf256.log.entry");
	ENSURES(in_a == 0 || spec_mul8(in_a, of_gf_2_8_inv[in_a]) == 1, "gf256.inv.entry");
	ENSURES(of_gf_2_8_inv[0] == 0, "gf256.inv.zero");
#elif OFV_T == 6 || OFV_T == 7
	REQUIRES(in_a < 256 && in_b < 255);
	/* the tables have arbitrary initial contents: what of_generate_gf leaves behind does not depend on history (C12 lemma) */
#ifndef OFV_NATIVE
	__CPROVER_havoc_object(of_rs_gf_exp);
	__CPROVER_havoc_object(of_rs_gf_log);
	__CPROVER_havoc_object(of_rs_inverse);
#else
	of_generate_gf();	/* replay: a concrete non-zero initial state, the one left by an earlier initialisation */
#endif
	of_generate_gf();
#if OFV_T == 6
	ENSURES(of_rs_gf_exp[0] == 1, "legacy.exp.zero");
	ENSURES(in_b + 1 >= 255 || of_rs_gf_exp[in_b + 1] == spec_mul8(of_rs_gf_exp[in_b], 2), "legacy.exp.step");
	ENSURES(spec_mul8(of_rs_gf_exp[254], 2) == 1, "legacy.exp.order");
	ENSURES(of_rs_gf_exp[in_b + 255] == of_rs_gf_exp[in_b], "legacy.exp.doubled");	/* the encoders index exp[] up to 2*254 */
	ENSURES(of_rs_gf_log[of_rs_gf_exp[in_b]] == (int)in_b, "legacy.log.of_exp");
	ENSURES(in_a == 0 || (of_rs_gf_log[in_a] >= 0 && of_rs_gf_log[in_a] < 255 && of_rs_gf_exp[of_rs_gf_log[in_a]] == in_a), "legacy.log.entry");
	ENSURES(of_rs_gf_log[0] == 255, "legacy.log.zero_convention");
	ENSURES(in_a == 0 || spec_mul8(in_a, of_rs_inverse[in_a]) == 1, "legacy.inv.entry");
	ENSURES(of_rs_inverse[0] == 0, "legacy.inv.zero");
#else
	IN(UINT32, in_b);
	REQUIRES(in_b < 256);
	ENSURES(in_a == 0 || in_b == 0 || of_rs_gf_exp[of_modnn(of_rs_gf_log[in_a] + of_rs_gf_log[in_b])] == spec_mul8(in_a, in_b), "legacy.mul_formula");
#endif
#elif OFV_T == 8
	{
		of_galois_field_code_cb_t cb;
		REQUIRES(in_a <= 254u * 254u + 255u);
		memset(&cb, 0, sizeof cb);
		cb.m = 8; cb.field_size = 255;
		ENSURES(of_modnn(&cb, (INT32)in_a) == in_a % 255, "modnn.gf2m.m8.value");
		cb.m = 4; cb.field_size = 15;
		REQUIRES(in_b <= 14u * 14u + 15u);
		ENSURES(of_modnn(&cb, (INT32)in_b) == in_b % 15, "modnn.gf2m.m4.value");
	}
#elif OFV_T == 9
	REQUIRES(in_a <= 254u * 254u + 255u);
	ENSURES(of_modnn((INT32)in_a) == in_a % 255, "modnn.legacy.value");
#endif
	REACHED("end");
	OFV_MAIN_RETURN;
}
