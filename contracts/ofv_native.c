/* native side of ofv.h: inputs of a replay are read from the file $OFV_REPLAY ("name value" per line) */
#include <stdio.h>
#include <stdlib.h>
#include <string.h>

int ofv_failed = 0;

long long ofv_get(const char *name)
{
	const char *p = getenv("OFV_REPLAY");
	char key[256], num[64];
	long long val;
	FILE *f;
	if (p == NULL || (f = fopen(p, "r")) == NULL) {
		printf("REPLAY-NO-INPUT-FILE\n");
		exit(4);
	}
	while (fscanf(f, "%255s %63s", key, num) == 2) {
		/* full 64-bit range: unsigned values above LLONG_MAX keep their bit pattern */
		val = (num[0] == '-') ? strtoll(num, NULL, 10) : (long long)strtoull(num, NULL, 10);
		if (strcmp(key, name) == 0) {
			fclose(f);
			return val;
		}
	}
	fclose(f);
	{	/* inputs the counterexample does not mention: 0, or (native fallback runs on undecided jobs) a value derived from $OFV_REPLAY_RANDOM */
		const char *r = getenv("OFV_REPLAY_RANDOM");
		if (r != NULL && atoi(r) != 0) {
			unsigned long long h = 1469598103934665603ull ^ (unsigned long long)atoi(r);
			const char *c;
			for (c = name; *c; c++) { h ^= (unsigned char)*c; h *= 1099511628211ull; }
			h ^= h >> 29;
			printf("REPLAY-INPUT-RANDOM %s %llu\n", name, h & 0xffffffffull);
			return (long long)(h & 0xffffffffull);
		}
	}
	printf("REPLAY-INPUT-DEFAULTED %s 0\n", name);
	return 0;
}

long long ofv_get_i(const char *name, long i)
{
	char key[300];
	snprintf(key, sizeof key, "%s[%ld]", name, i);
	return ofv_get(key);
}

long long ofv_get_ij(const char *name, long i, long j)
{
	char key[300];
	snprintf(key, sizeof key, "%s[%ld][%ld]", name, i, j);
	return ofv_get(key);
}

void *ofv_exact_alloc(size_t n)
{
	void *p = malloc(n);	/* exact size: ASan red zones start right after byte n-1 */
	if (p != NULL && n > 0)
		memset(p, 0, n);
	return p;
}
