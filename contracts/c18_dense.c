/* C18 — dense GF(2) matrix operations and popcount helpers against a plain bit-matrix model (of_matrix_dense.c,
 * of_hamming_weight.c), contracts enforced on the real functions.
 *
 * OFV_T  1 get/set/flip   — PROVED for every dimension: only the addressed row has to exist (valid_dense_row)
 *        2 popcount helpers — PROVED for every 32/64-bit argument
 *        10.. multi-row operations — BOUNDED: matrices from the real of_mod2dense_allocate, one run per dimension configuration
 *           10 clear  11 copy  12 copyrows  13 copycols  14 xor_rows  15 row_is_empty/row_weight/col_weight
 *           16 row_weight_ignore_first (nb_ignore a multiple of 32)  17 of_hweight_array
 * Model of a cell: bit (col & 31) of word (col >> 5) of the row; representation invariant: bits beyond n_cols are zero.
 */
#include "ofv.h"
#include "of_openfec_api.h"
#include "linear_binary_codes_utils/of_linear_binary_code.h"

static UINT32 spec_popcount64(UINT64 x)
{
	UINT32 n = 0, i;
	for (i = 0; i < 64; i++)
		n += (UINT32)((x >> i) & 1);
	return n;
}
#define BIT(rowp, c) (((rowp)[(c) >> 5] >> ((c) & 31)) & 1u)

UINT32 in_rows, in_cols, in_r, in_c, in_v, g_w, in_rows2, in_cols2, g_r, g_c, in_from, in_to, in_ign;
UINT64 in_x;
UINT32 in_idx[8];

#if OFV_T >= 10
#define OFV_R (OFV_ROWS > OFV_ROWS2 ? OFV_ROWS : OFV_ROWS2)
#define OFV_C (OFV_COLS > OFV_COLS2 ? OFV_COLS : OFV_COLS2)
#define WMAX ((OFV_C + 31) / 32)
/* matrix from the real allocator, contents arbitrary but well-formed (padding bits zero) */
static of_mod2dense *mk(UINT32 rows, UINT32 cols, UINT32 snap[OFV_R][WMAX])
{
	UINT32 i, k;
	of_mod2dense *m = of_mod2dense_allocate(rows, cols);
	REQUIRES(m != NULL);
	for (i = 0; i < OFV_R; i++)
		for (k = 0; k < WMAX; k++) {
			if (i < rows && k < m->n_words) {
				UINT32 w;
#ifdef OFV_NATIVE
				w = (UINT32)(2654435761u * (i * 131 + k * 17 + cols + 1));
#else
				UINT32 nd; w = nd;
#endif
				if (k == m->n_words - 1 && (cols & 31))
					w &= (1u << (cols & 31)) - 1;
				m->row[i][k] = w;
				snap[i][k] = w;
			} else
				snap[i][k] = 0;
		}
	return m;
}
#endif

int main(void)
{
#if OFV_T == 1
	of_mod2dense m;
	UINT32 old_w, old_other, ret;
	IN(UINT32, in_rows); IN(UINT32, in_cols); IN(UINT32, in_r); IN(UINT32, in_c); IN(UINT32, in_v); IN(UINT32, g_w);
	REQUIRES(in_rows >= 1 && in_rows <= 65536 && in_cols >= 1 && in_cols <= (1u << 20));
	m.n_rows = in_rows; m.n_cols = in_cols; m.n_words = (in_cols + 31) >> 5;
	m.row = OFV_MALLOC(in_rows * sizeof(of_mod2word *));
	m.bits = NULL;
	REQUIRES(m.row != NULL);
	REQUIRES(g_w < m.n_words);
	REQUIRES(in_v <= 1);
	if (in_r < in_rows) {		/* valid_dense_row: only the addressed row has to exist */
		m.row[in_r] = OFV_MALLOC(m.n_words * sizeof(of_mod2word));
		REQUIRES(m.row[in_r] != NULL);
	}
#if OFV_OP == 0			/* get: in-range arguments only (release builds do not check) */
	REQUIRES(in_r < in_rows && in_c < in_cols);
	IN_MEM(UINT32, old_w, m.row[in_r][in_c >> 5]);
	ret = of_mod2dense_get(&m, in_r, in_c);
	ENSURES(ret == ((old_w >> (in_c & 31)) & 1), "dense.get.value");
	ENSURES(m.row[in_r][in_c >> 5] == old_w, "dense.get.unchanged");
#else
	if (in_r < in_rows && in_c < in_cols) {
		IN_MEM(UINT32, old_w, m.row[in_r][in_c >> 5]);
		old_other = m.row[in_r][g_w];
	}
#if OFV_OP == 1
	ret = (UINT32)of_mod2dense_set(&m, in_r, in_c, in_v);
	if (in_r < in_rows && in_c < in_cols) {
		ENSURES(ret == 0, "dense.set.ok");
		ENSURES(m.row[in_r][in_c >> 5] == ((old_w & ~(1u << (in_c & 31))) | (in_v << (in_c & 31))), "dense.set.exactly_that_bit");
		ENSURES(g_w == (in_c >> 5) || m.row[in_r][g_w] == old_other, "dense.set.other_words_unchanged");
	} else
		ENSURES(ret == (UINT32)-1, "dense.set.out_of_range_rejected");
#else
	ret = of_mod2dense_flip(&m, in_r, in_c);
	if (in_r < in_rows && in_c < in_cols) {
		ENSURES(m.row[in_r][in_c >> 5] == (old_w ^ (1u << (in_c & 31))), "dense.flip.exactly_that_bit");
		ENSURES(ret == (((old_w >> (in_c & 31)) & 1) ^ 1), "dense.flip.returns_new_bit");
		ENSURES(g_w == (in_c >> 5) || m.row[in_r][g_w] == old_other, "dense.flip.other_words_unchanged");
	} else
		ENSURES(ret == (UINT32)-1, "dense.flip.out_of_range_rejected");
#endif
#endif
#elif OFV_T == 2
	IN(UINT64, in_x);
	ENSURES((UINT32)of_popcount_3(in_x) == spec_popcount64(in_x), "popcount.of_popcount_3");
	ENSURES(of_hweight32((UINT32)in_x) == spec_popcount64((UINT32)in_x), "popcount.of_hweight32");
	ENSURES(of_hweight32_table((UINT32)in_x) == spec_popcount64((UINT32)in_x), "popcount.of_hweight32_table");
	ENSURES(of_hweight8_table((UINT8)in_x) == spec_popcount64((UINT8)in_x), "popcount.of_hweight8_table");
	ENSURES(of_hweight32_naive((UINT32)in_x) == spec_popcount64((UINT32)in_x), "popcount.of_hweight32_naive");
#else
	UINT32 sm[OFV_R][WMAX], sr[OFV_R][WMAX], i;
	of_mod2dense *m, *r;
	/* dimensions are harness constants (one run per configuration); contents, index vectors and the ghost cell are symbolic */
	in_rows = OFV_ROWS; in_cols = OFV_COLS; in_rows2 = OFV_ROWS2; in_cols2 = OFV_COLS2;
	IN(UINT32, g_r); IN(UINT32, g_c);
	m = mk(in_rows, in_cols, sm);
#if OFV_T == 10
	REQUIRES(g_r < in_rows && g_c < in_cols);
	of_mod2dense_clear(m);
	ENSURES(of_mod2dense_get(m, g_r, g_c) == 0, "dense.clear.cell_zero");
	ENSURES(m->row[g_r][g_c >> 5] == 0, "dense.clear.padding_zero");
#elif OFV_T == 11
	REQUIRES(in_rows <= in_rows2 && in_cols <= in_cols2 && g_r < in_rows2 && g_c < in_cols2);
	r = mk(in_rows2, in_cols2, sr);
	of_mod2dense_copy(m, r);
	ENSURES(of_mod2dense_get(r, g_r, g_c) == ((g_r < in_rows && g_c < in_cols) ? BIT(sm[g_r], g_c) : 0), "dense.copy.cell");
	ENSURES(g_r >= in_rows || g_c >= in_cols || of_mod2dense_get(m, g_r, g_c) == BIT(sm[g_r], g_c), "dense.copy.source_unchanged");
#elif OFV_T == 12
	REQUIRES(in_cols <= in_cols2 && g_r < in_rows2 && g_c < in_cols2);
	r = mk(in_rows2, in_cols2, sr);
	for (i = 0; i < OFV_R; i++) { IN_I(UINT32, in_idx, i); REQUIRES(in_idx[i] < in_rows); }
	{
		UINT32 *rows = OFV_MALLOC(in_rows2 * sizeof(UINT32));
		REQUIRES(rows != NULL);
		for (i = 0; i < OFV_R; i++) if (i < in_rows2) rows[i] = in_idx[i];
		of_mod2dense_copyrows(m, r, rows);
	}
	ENSURES(of_mod2dense_get(r, g_r, g_c) == (g_c < in_cols ? BIT(sm[in_idx[g_r]], g_c) : 0), "dense.copyrows.cell");
#elif OFV_T == 13
	REQUIRES(in_rows <= in_rows2 && g_r < in_rows && g_c < in_cols2);
	r = mk(in_rows2, in_cols2, sr);
	{
		UINT32 *cols = OFV_MALLOC(in_cols2 * sizeof(UINT32));
		REQUIRES(cols != NULL);
#ifdef OFV_NATIVE
		for (i = 0; i < in_cols2; i++) cols[i] = (i * 7 + 3) % in_cols;
#else
		for (i = 0; i < OFV_C; i++) if (i < in_cols2) REQUIRES(cols[i] < in_cols);
#endif
		IN_MEM(UINT32, in_c, cols[g_c]);
		REQUIRES(in_c < in_cols);
		of_mod2dense_copycols(m, r, cols);
	}
	ENSURES(of_mod2dense_get(r, g_r, g_c) == BIT(sm[g_r], in_c), "dense.copycols.cell");
#elif OFV_T == 14
	IN(UINT32, in_from); IN(UINT32, in_to);
	REQUIRES(in_from < in_rows && in_to < in_rows && in_from != in_to && g_r < in_rows && g_c < in_cols);
	of_mod2dense_xor_rows(m, (UINT16)in_from, (UINT16)in_to);
	ENSURES(of_mod2dense_get(m, g_r, g_c) == (g_r == in_to ? (BIT(sm[in_to], g_c) ^ BIT(sm[in_from], g_c)) : BIT(sm[g_r], g_c)), "dense.xor_rows.cell");
	ENSURES((m->row[in_to][(in_cols - 1) >> 5] >> 1 >> ((in_cols - 1) & 31)) == 0, "dense.xor_rows.padding_zero");
#elif OFV_T == 15
	{
		UINT32 w = 0, cw = 0, c;
		REQUIRES(g_r < in_rows && g_c < in_cols);
		for (c = 0; c < OFV_C; c++) if (c < in_cols) w += BIT(sm[g_r], c);
		for (i = 0; i < OFV_R; i++) if (i < in_rows) cw += BIT(sm[i], g_c);
		ENSURES(of_mod2dense_row_weight(m, g_r) == w, "dense.row_weight");
		ENSURES(of_mod2dense_row_is_empty(m, g_r) == (w == 0), "dense.row_is_empty");
		ENSURES(of_mod2dense_col_weight(m, g_c) == cw, "dense.col_weight");
		ENSURES(of_mod2dense_row_weight(m, in_rows) == (UINT32)-1 && of_mod2dense_col_weight(m, in_cols) == (UINT32)-1, "dense.weight.out_of_range_rejected");
	}
#elif OFV_T == 16
	{
		UINT32 w = 0, c;
		IN(UINT32, in_ign);
		REQUIRES(g_r < in_rows && (in_ign & 31) == 0 && in_ign <= in_cols);
		for (c = 0; c < OFV_C; c++) if (c >= in_ign && c < in_cols) w += BIT(sm[g_r], c);
		ENSURES(of_mod2dense_row_weight_ignore_first(m, g_r, in_ign) == w, "dense.row_weight_ignore_first");
	}
#elif OFV_T == 17
	{
		UINT32 w = 0, c;
		REQUIRES(g_r < in_rows);
		for (c = 0; c < OFV_C; c++) if (c < in_cols) w += BIT(sm[g_r], c);
		ENSURES(of_hweight_array((UINT32 *)m->row[g_r], (INT32)in_cols) == w, "dense.of_hweight_array");
	}
#endif
#endif
	REACHED("end");
	OFV_MAIN_RETURN;
}
