/* C08 — a released Reed-Solomon session leaves nothing behind (OFV_CODEC 1: GF(2^8) legacy, 2: GF(2^m)).
 * Whole-session contract on the real API (dispatch layer + codec API layer), codec core replaced by the same contract stubs as in
 * C10 (allocation-faithful: what the stub of of_rs_new / of_rs_2m_build_encoding_matrix allocates is what the real release frees):
 *   history   of_create_codec_instance(role) ; of_set_fec_parameters(k = OFV_K, n-k = OFV_R, length OFV_LEN)
 *             ; optionally of_set_callback_functions ; then OFV_STEPS protocol-conforming calls, each chosen nondeterministically
 *             among build_repair_symbol(esi), decode_with_new_symbol(esi), set_available_symbols(subset), finish_decoding
 *             ; the session may also be released unconfigured or right after configuration (in_stop: release point)
 *   then      the application frees the decoded source symbols (entries of of_get_source_symbols_tab that it did not supply: the
 *             API documents them as application-owned) and its own buffers, and calls of_release_codec_instance
 *   ensures   nothing allocated is left (cbmc --memory-leak-check), nothing freed twice, no access to freed memory (pointer checks)
 * BOUNDED: tiny instance, histories of <= OFV_STEPS calls.
 */
#include "ofv.h"
#include "of_openfec_api.h"
#if OFV_CODEC == 1
#include "lib_stable/reed-solomon_gf_2_8/of_reed-solomon_gf_2_8_includes.h"
typedef of_rs_cb_t cb_t;
#define CODEC_ID OF_CODEC_REED_SOLOMON_GF_2_8_STABLE
#else
#include "lib_stable/reed-solomon_gf_2_m/of_reed-solomon_gf_2_m_includes.h"
typedef of_rs_2_m_cb_t cb_t;
#define CODEC_ID OF_CODEC_REED_SOLOMON_GF_2_M_STABLE
#endif
#define K OFV_K
#define RR OFV_R
#define NN (K + RR)
#define LEN OFV_LEN
#ifndef OFV_STEPS
#define OFV_STEPS 3
#endif

UINT32 in_role, in_use_cb, in_stop, in_kind[OFV_STEPS], in_esi[OFV_STEPS], in_sub[OFV_STEPS], in_cb_null[K + 1];
static UINT8 appbuf[NN][LEN];		/* application symbol buffers (static: not heap) */
static void *cb_given[K + 1];

static void *cb_src(void *ctx, UINT32 size, UINT32 esi)
{
	void *p = (esi < K && in_cb_null[esi]) ? NULL : OFV_MALLOC(size);
	if (esi < K) cb_given[esi] = p;
	return p;
}
#if OFV_CODEC == 1
void *stub_rs_new(UINT32 k, UINT32 n) { return OFV_MALLOC(1); }
void stub_rs_free(void *p) { free(p); }
of_status_t stub_rs_decode(void *code, void **pkt, int index[], int sz) { return OF_STATUS_OK; }
of_status_t stub_rs_encode(void *code, void **src, void *dst, int index, int sz) { return OF_STATUS_OK; }
#else
of_status_t stub_rs_2m_build_encoding_matrix(of_galois_field_code_cb_t *cb) { ((cb_t *)cb)->enc_matrix = of_malloc(1); return OF_STATUS_OK; }
of_status_t stub_rs_2m_decode(of_galois_field_code_cb_t *cb, gf *pkt[], int index[], int sz) { return OF_STATUS_OK; }
of_status_t stub_rs_2m_encode(of_galois_field_code_cb_t *cb, gf *src[], gf *dst, int index, int sz) { return OF_STATUS_OK; }
#endif

int main(void)
{
	of_session_t *ses = NULL;
	void *enc_tab[NN], *out[K];
	UINT32 s, i;
	int lib_alloc_repair[NN];

	IN(UINT32, in_role); IN(UINT32, in_use_cb); IN(UINT32, in_stop);
	REQUIRES(in_role == OF_ENCODER || in_role == OF_DECODER || in_role == OF_ENCODER_AND_DECODER);
	REQUIRES(in_use_cb <= 1 && in_stop <= OFV_STEPS + 1);
	for (i = 0; i < K; i++) { IN_I(UINT32, in_cb_null, i); REQUIRES(in_cb_null[i] <= 1); }
	REQUIRES(of_create_codec_instance(&ses, CODEC_ID, (of_codec_type_t)in_role, 0) == OF_STATUS_OK && ses != NULL);
	for (i = 0; i < NN; i++) { enc_tab[i] = (i < K) ? (void *)appbuf[i] : NULL; lib_alloc_repair[i] = 0; }
	if (in_stop >= 1) {			/* in_stop == 0: released unconfigured */
#if OFV_CODEC == 1
		of_rs_parameters_t p; memset(&p, 0, sizeof p);
#else
		of_rs_2_m_parameters_t p; memset(&p, 0, sizeof p); p.m = 8;
#endif
		p.nb_source_symbols = K; p.nb_repair_symbols = RR; p.encoding_symbol_length = LEN;
		REQUIRES(of_set_fec_parameters(ses, (of_parameters_t *)&p) == OF_STATUS_OK);
		if (in_use_cb)
			REQUIRES(of_set_callback_functions(ses, cb_src, NULL, NULL) == OF_STATUS_OK);
		for (s = 0; s < OFV_STEPS; s++) {
			if (s + 1 >= in_stop)	/* release point reached */
				break;
			IN_I(UINT32, in_kind, s); IN_I(UINT32, in_esi, s); IN_I(UINT32, in_sub, s);
			REQUIRES(in_kind[s] <= 3 && in_esi[s] < NN && in_sub[s] < (1u << NN));
			if (in_kind[s] == 0) {			/* encoder call */
				REQUIRES((in_role & OF_ENCODER) && in_esi[s] >= K);
				(void)of_build_repair_symbol(ses, enc_tab, in_esi[s]);	/* NULL slot: the library allocates; the application owns the result */
			} else {
				REQUIRES(in_role & OF_DECODER);
				if (in_kind[s] == 1)
					(void)of_decode_with_new_symbol(ses, appbuf[in_esi[s]], in_esi[s]);
				else if (in_kind[s] == 2) {
					void *t[NN];
					for (i = 0; i < NN; i++) t[i] = ((in_sub[s] >> i) & 1) ? (void *)appbuf[i] : NULL;
					REQUIRES(!of_is_decoding_complete(ses));	/* alternative to the incremental API, used before completion */
					(void)of_set_available_symbols(ses, t);
				} else
					(void)of_finish_decoding(ses);
			}
		}
		/* the application takes the decoded source symbols (documented as its property) and frees those it did not supply */
		if ((in_role & OF_DECODER) && of_is_decoding_complete(ses)) {
			if (of_get_source_symbols_tab(ses, out) == OF_STATUS_OK)
				for (i = 0; i < K; i++)
					if (out[i] != NULL && out[i] != (void *)appbuf[i])
						free(out[i]);
		}
	}
	/* repair symbols the library allocated into the application's table belong to the application */
	for (i = K; i < NN; i++)
		if (enc_tab[i] != NULL)
			free(enc_tab[i]);
	(void)of_release_codec_instance(ses);
	REACHED("released");
	OFV_MAIN_RETURN;
}
