/* C20 — contract of of_compute_blocking_struct(B, L, E, &bs)  [applis/eperftool/blocking_struct.c], enforced on the real
 * function (translation unit included unmodified; double_to_closest_int is static).
 *  requires  B, E >= 1, L >= 1, inside the box OFV_BMAX / OFV_LMAX / OFV_EMAX (BOUNDED: double ceil/floor/division are
 *            encoded bit-precisely and only close for narrow operands)
 *  ensures   with T = ceil(L/E), N = ceil(T/B) in 64-bit integer arithmetic (RFC 5052):
 *              nb_blocks == N, A_small == floor(T/N), A_large == ceil(T/N) <= B, I <= N,
 *              I*A_large + (N-I)*A_small == T
 */
#include "ofv.h"
#include "applis/eperftool/blocking_struct.c"

UINT32 in_B, in_L, in_E, in_n;
double in_v;

#if OFV_T == 2
/* contract of the static helper double_to_closest_int(v): what its only caller needs from it —
 *   0 <= v < 2^32 and |v - n| <= 2^-16 for an integer n  ==>  returns n
 * (A_fraction * N is an integer up to floating-point error; for T < 2^32 that error is below 2^-20: pencil-and-paper
 * bound, TRUSTED, which is why 2^-16 is demanded here). Proved for every double v. */
int main(void)
{
	IN(UINT32, in_n);
#ifdef OFV_NATIVE
	{ long long bits = ofv_get("in_v"); memcpy(&in_v, &bits, sizeof in_v); }
#else
	{ double nd; in_v = nd; }
#endif
	REQUIRES(in_v >= 0.0 && in_v < 4294967296.0);
	REQUIRES(fabs(in_v - (double)in_n) <= 1.0 / 65536.0);
	ENSURES(double_to_closest_int(in_v) == in_n, "closest_int.within_tolerance_of_integer");
	REACHED("after_call");
	OFV_MAIN_RETURN;
}
#else
int main(void)
{
	of_blocking_struct_t bs;
	unsigned long long T, N;
	IN(UINT32, in_B); IN(UINT32, in_L); IN(UINT32, in_E);
	REQUIRES(in_B >= 1 && in_L >= 1 && in_E >= 1);
	REQUIRES(in_B <= OFV_BMAX && in_L <= OFV_LMAX && in_E <= OFV_EMAX);
#ifdef OFV_LSLICE_SHIFT
	REQUIRES((in_L >> OFV_LSLICE_SHIFT) == OFV_LSLICE);
#endif
	memset(&bs, 0, sizeof bs);
	of_compute_blocking_struct(in_B, in_L, in_E, &bs);
	T = ((unsigned long long)in_L + in_E - 1) / in_E;
	N = (T + in_B - 1) / in_B;
	ENSURES(bs.nb_blocks == N, "blocking.nb_blocks");
	ENSURES(bs.A_small == T / N, "blocking.A_small");
	ENSURES(bs.A_large == (T + N - 1) / N, "blocking.A_large");
	ENSURES(bs.A_large <= in_B, "blocking.A_large_le_B");
	ENSURES(bs.I <= N, "blocking.I_le_N");
	ENSURES((unsigned long long)bs.I * bs.A_large + (N - bs.I) * bs.A_small == T, "blocking.partition_sums_to_T");
	REACHED("after_call");
	OFV_MAIN_RETURN;
}
#endif
