/* C19 — contracts of of_rfc5170_srand / of_rfc5170_rand (of_rand.c), enforced on the real functions.
 *  M = 2^31-1.  OFV_T:
 *   1 srand:  (1 <= s <= M-1  ==> of_seed' == s)  and  (otherwise of_seed' == old(of_seed))          all 2^64 s, any old seed
 *   2 rand.step (A): for every state 1 <= s <= M-1 and any maxv: 1 <= s' <= M-1 and
 *                    s' + q*M == 16807*(s & 0xFFFF) + ((16807*(s >> 16)) << 16)  for the quotient witness q < 16807
 *   3 lemma (B), code independent: 16807*(s & 0xFFFF) + ((16807*(s >> 16)) << 16) == 16807*s  for s < 2^31
 *     (A) and (B) with the range bound give s' == 16807*s mod M.
 *   4 rand.return: the returned value is RFC 5170's reference expression (double)s' * (double)maxv / (double)M truncated
 *   5 the 10,000th state after seed 1 is 1043618065 (real functions executed 10,000 times)
 *   6 BOUNDED sub-claim: 0 <= ret <= maxv-1 and ret == floor(s'*maxv/M) for maxv <= OFV_MAXV
 */
#include "ofv.h"
#include "of_openfec_api.h"
#include "of_rand.h"
#include "of_rand.c"

#define M 0x7FFFFFFFull
UINT64 in_s, in_old, in_maxv;

int main(void)
{
	IN(UINT64, in_s);
	IN(UINT64, in_old);
	IN(UINT64, in_maxv);
#if OFV_T == 1
	of_seed = in_old;
	of_rfc5170_srand(in_s);
	ENSURES(!(in_s >= 1 && in_s <= M - 1) || of_seed == in_s, "srand.accepts_valid");
	ENSURES((in_s >= 1 && in_s <= M - 1) || of_seed == in_old, "srand.rejects_invalid_keeps_state");
#elif OFV_T == 2
	{
		UINT64 hi, lo, q, s1, ret;
		REQUIRES(in_s >= 1 && in_s <= M - 1);
		of_seed = in_s;
		ret = of_rfc5170_rand(in_maxv);
		s1 = of_seed;
		ENSURES(s1 >= 1 && s1 <= M - 1, "rand.state_in_range");
		/* quotient witness, recomputed here from the input state only */
		hi = 16807ull * (in_s >> 16);
		lo = 16807ull * (in_s & 0xFFFF) + ((hi & 0x7FFF) << 16) + (hi >> 15);
		q = (hi >> 15) + (lo > M ? 1 : 0);
		ENSURES(q < 16807, "rand.quotient_witness_range");
		ENSURES(s1 + ((q << 31) - q) == 16807ull * (in_s & 0xFFFF) + ((16807ull * (in_s >> 16)) << 16), "rand.step_congruence");
		(void)ret;
	}
#elif OFV_T == 3
	REQUIRES(in_s < (1ull << 31));
	ENSURES(16807ull * (in_s & 0xFFFF) + ((16807ull * (in_s >> 16)) << 16) == 16807ull * in_s, "lemma.split_multiplication");
#elif OFV_T == 4
	{
		UINT64 ret, s1;
		REQUIRES(in_s >= 1 && in_s <= M - 1);
		of_seed = in_s;
		ret = of_rfc5170_rand(in_maxv);
		s1 = of_seed;
		ENSURES(ret == (UINT64)((double)s1 * (double)in_maxv / (double)0x7FFFFFFF), "rand.return_is_rfc_expression");
	}
#elif OFV_T == 5
	{
		int i;
		UINT64 v = 0;
		of_rfc5170_srand(1);
		for (i = 0; i < 10000; i++)
			v = of_rfc5170_rand(0x7FFFFFFF);
		ENSURES(of_seed == 1043618065ull, "rand.ten_thousandth_state");
		(void)v;
	}
#elif OFV_T == 6
	{
		UINT64 ret, s1;
		REQUIRES(in_s >= 1 && in_s <= M - 1);
		REQUIRES(in_maxv >= 1 && in_maxv <= OFV_MAXV);
		of_seed = in_s;
		ret = of_rfc5170_rand(in_maxv);
		s1 = of_seed;
		ENSURES(ret <= in_maxv - 1, "rand.return_in_range");
		ENSURES(ret == (s1 * in_maxv) / M, "rand.return_is_exact_floor");
	}
#endif
	REACHED("end");
	OFV_MAIN_RETURN;
}
