/* C17 — sparse GF(2) matrix == set of (row, col) pairs, under operation sequences (of_matrix_sparse.c, of_matrix_convert.c).
 * BOUNDED: dimensions OFV_ROWS x OFV_COLS are harness constants, allocation blocks hold OFV block entries (hook
 * OPENFEC_VERIF_SPARSE_BLOCK, smaller than the number of entries used so that multi-block and free-list reuse paths run),
 * the sequence has OFV_N steps whose KINDS are harness constants (OFV_K0..OFV_K3: 0 insert, 1 find+delete, 2 clear, 3 insert every cell in row-major order); EVERY tuple of
 * in-range ARGUMENTS is enumerated inside the run (symbolic arguments exhaust 12 GB for two steps: probed), followed by one
 * derived-matrix operation OFV_FINAL (0 none, 1 copy, 2 copyrows, 3 copycols, 4 copy_filled_matrix, 5 sparse->dense->sparse)
 * with every index vector enumerated. So a run decides all sequences of its kind pattern completely, inside the bound.
 * Observation contract on the resulting matrix against the abstract set model, for every cell / row / column:
 *   find(g_r,g_c) != NULL <==> (g_r,g_c) in model, and the entry found carries (g_r,g_c)           sparse.find_iff_member
 *   inserting an existing entry returns it and changes nothing                                       sparse.insert_idempotent
 *   row g_r traversal lists exactly the model's columns of that row, strictly increasing             sparse.row_traversal.*
 *   column g_c traversal lists exactly the model's rows of that column, strictly increasing          sparse.col_traversal.*
 *   left/right and up/down are mutually inverse along the traversals                                 sparse.links_inverse
 *   empty_row / empty_col agree with the model                                                       sparse.empty_row_col
 *   freeing the matrices leaves nothing allocated (cbmc --memory-leak-check), no access to freed memory (pointer checks)
 */
#include "ofv.h"
#include "of_openfec_api.h"
#include "linear_binary_codes_utils/of_linear_binary_code.h"

#define R OFV_ROWS
#define C OFV_COLS
#ifndef OFV_N
#define OFV_N 2
#endif
static const int kinds[4] = {
#ifdef OFV_K0
	OFV_K0,
#else
	0,
#endif
#ifdef OFV_K1
	OFV_K1,
#else
	0,
#endif
#ifdef OFV_K2
	OFV_K2,
#else
	0,
#endif
#ifdef OFV_K3
	OFV_K3
#else
	0
#endif
};

UINT32 g_r, g_c;
static UINT8 model[R][C], derived[R][C];

static void observe(of_mod2sparse *x, UINT8 mod[R][C])
{
	of_mod2entry *e, *f;
	UINT32 n, want, c, r;
	INT32 last;
	for (g_r = 0; g_r < R; g_r++)
		for (g_c = 0; g_c < C; g_c++) {
			e = of_mod2sparse_find(x, g_r, g_c);
			ENSURES((e != NULL) == (mod[g_r][g_c] != 0), "sparse.find_iff_member");
			ENSURES(e == NULL || (e->row == (INT32)g_r && e->col == (INT32)g_c), "sparse.find_returns_that_entry");
			if (e != NULL) {
				f = of_mod2sparse_insert(x, g_r, g_c);
				ENSURES(f == e, "sparse.insert_idempotent");
			}
		}
	for (g_r = 0; g_r < R; g_r++) {		/* row traversals */
		want = 0;
		for (c = 0; c < C; c++) want += mod[g_r][c];
		n = 0; last = -1;
		for (e = of_mod2sparse_first_in_row(x, g_r); !of_mod2sparse_at_end(e) && n <= C; e = of_mod2sparse_next_in_row(e)) {
			ENSURES(e->row == (INT32)g_r && e->col > last && e->col < C, "sparse.row_traversal.increasing_in_range");
			if (e->col >= 0 && e->col < C)
				ENSURES(mod[g_r][e->col] != 0, "sparse.row_traversal.only_members");
			ENSURES(e->right->left == e && e->left->right == e, "sparse.links_inverse.row");
			last = e->col; n++;
		}
		ENSURES(n == want, "sparse.row_traversal.all_members");
		ENSURES(of_mod2sparse_empty_row(x, g_r) == (want == 0), "sparse.empty_row");
	}
	for (g_c = 0; g_c < C; g_c++) {		/* column traversals */
		want = 0;
		for (r = 0; r < R; r++) want += mod[r][g_c];
		n = 0; last = -1;
		for (e = of_mod2sparse_first_in_col(x, g_c); !of_mod2sparse_at_end_col(e) && n <= R; e = of_mod2sparse_next_in_col(e)) {
			ENSURES(e->col == (INT32)g_c && e->row > last && e->row < R, "sparse.col_traversal.increasing_in_range");
			if (e->row >= 0 && e->row < R)
				ENSURES(mod[e->row][g_c] != 0, "sparse.col_traversal.only_members");
			ENSURES(e->down->up == e && e->up->down == e, "sparse.links_inverse.col");
			last = e->row; n++;
		}
		ENSURES(n == want, "sparse.col_traversal.all_members");
		ENSURES(of_mod2sparse_empty_col(x, g_c) == (want == 0), "sparse.empty_col");
	}
}

/* one scenario: the operation sequence with the given (concrete) arguments, then the derived-matrix operation with the
 * given index vectors, then the observation of EVERY cell, row and column */
static void scenario(const UINT32 *a, const UINT32 *b, const UINT32 *ir, const UINT32 *ic)
{
	of_mod2sparse *m, *x;
	UINT32 i, r, c;
	memset(model, 0, sizeof model);
	m = of_mod2sparse_allocate(R, C);
	REQUIRES(m != NULL);
	for (i = 0; i < OFV_N; i++) {
		if (kinds[i] == 0) {
			of_mod2entry *e = of_mod2sparse_insert(m, a[i], b[i]);
			ENSURES(e != NULL && e->row == (INT32)a[i] && e->col == (INT32)b[i], "sparse.insert_returns_entry");
			model[a[i]][b[i]] = 1;
		} else if (kinds[i] == 1) {
			of_mod2entry *e = of_mod2sparse_find(m, a[i], b[i]);
			ENSURES((e != NULL) == (model[a[i]][b[i]] != 0), "sparse.find_iff_member.step");
			if (e != NULL)
				of_mod2sparse_delete(m, e);
			model[a[i]][b[i]] = 0;
		} else if (kinds[i] == 2) {
			of_mod2sparse_clear(m);
			memset(model, 0, sizeof model);
		} else {
			for (r = 0; r < R; r++)
				for (c = 0; c < C; c++) {
					of_mod2sparse_insert(m, r, c);
					model[r][c] = 1;
				}
		}
	}
#if OFV_FINAL == 0
	x = m;
	memcpy(derived, model, sizeof derived);
#else
	x = of_mod2sparse_allocate(R, C);
	REQUIRES(x != NULL);
	of_mod2sparse_insert(x, R - 1, C - 1);	/* the destination already holds something: the result must not depend on it */
	memset(derived, 0, sizeof derived);
#if OFV_FINAL == 1
	of_mod2sparse_copy(m, x);
	memcpy(derived, model, sizeof derived);
#elif OFV_FINAL == 2
	{
		UINT32 rows[R];
		for (r = 0; r < R; r++) rows[r] = ir[r];
		of_mod2sparse_copyrows(m, x, rows);
		for (r = 0; r < R; r++) for (c = 0; c < C; c++) derived[r][c] = model[ir[r]][c];
	}
#elif OFV_FINAL == 3
	{
		UINT32 cols[C];
		for (c = 0; c < C; c++) cols[c] = ic[c];
		of_mod2sparse_copycols(m, x, cols);
		for (r = 0; r < R; r++) for (c = 0; c < C; c++) derived[r][c] = model[r][ic[c]];
	}
#elif OFV_FINAL == 4
	{
		/* copy_filled_matrix(m, x, index_rows, index_cols): entry (r,c) goes to (index_rows[r], index_cols[c]); the maps
		 * are injective (its caller numbers the non-empty rows/columns); the destination is empty, as at its call site */
		UINT32 mir[R], mic[C];
		for (r = 0; r < R; r++) mir[r] = ir[r];
		for (c = 0; c < C; c++) mic[c] = ic[c];
		of_mod2sparse_clear(x);
		of_mod2sparse_copy_filled_matrix(m, x, mir, mic);
		for (r = 0; r < R; r++) for (c = 0; c < C; c++) if (model[r][c]) derived[ir[r]][ic[c]] = 1;
	}
#elif OFV_FINAL == 5
	{
		of_mod2dense *d = of_mod2dense_allocate(R, C);
		REQUIRES(d != NULL);
		of_mod2sparse_to_dense(m, d);
		for (r = 0; r < R; r++) for (c = 0; c < C; c++)
			ENSURES(of_mod2dense_get(d, r, c) == model[r][c], "sparse.to_dense.cell");
		of_mod2dense_to_sparse(d, x);
		memcpy(derived, model, sizeof derived);
		of_mod2dense_free(d);
	}
#endif
#endif
	observe(x, derived);
	if (x != m) {
		of_mod2sparse_free(x);
		of_free(x);
	}
	of_mod2sparse_free(m);
	of_free(m);
}

static int injective(const UINT32 *v, UINT32 n)
{
	UINT32 i, j;
	for (i = 0; i < n; i++)
		for (j = i + 1; j < n; j++)
			if (v[i] == v[j])
				return 0;
	return 1;
}

int main(void)
{
	UINT32 a[4] = {0, 0, 0, 0}, b[4] = {0, 0, 0, 0}, ir[R + 1], ic[C + 1];
	unsigned long code, total = 1, x;
	UINT32 i, nscen = 0, first_arg_step = 99;
	for (i = 0; i < OFV_N; i++)
		if (kinds[i] < 2 && first_arg_step == 99)
			first_arg_step = i;
	/* enumerate EVERY argument tuple: (row, col) of each insert/delete step, and every index vector of the final operation */
	for (i = 0; i < OFV_N; i++)
		if (kinds[i] < 2
#ifdef OFV_FIX0
		    && i != first_arg_step	/* that step's arguments are fixed by the driver (one run per value: parallelism only) */
#endif
		   )
			total *= (unsigned long)R * C;
#if OFV_FINAL == 2
	for (i = 0; i < R; i++) total *= R;
#endif
#if OFV_FINAL == 3
	for (i = 0; i < C; i++) total *= C;
#endif
#if OFV_FINAL == 4
	for (i = 2; i <= R; i++) total *= i;	/* R! row permutations */
	for (i = 2; i <= C; i++) total *= i;	/* C! column permutations */
#endif
	for (code = 0; code < total; code++) {
		x = code;
		for (i = 0; i < OFV_N; i++)
			if (kinds[i] < 2) {
#ifdef OFV_FIX0
				if (i == first_arg_step) { a[i] = (OFV_FIX0) / C; b[i] = (OFV_FIX0) % C; continue; }
#endif
				a[i] = (UINT32)((x % (R * C)) / C); b[i] = (UINT32)((x % (R * C)) % C); x /= (R * C);
			}
		for (i = 0; i < R; i++) ir[i] = i;
		for (i = 0; i < C; i++) ic[i] = i;
#if OFV_FINAL == 2
		for (i = 0; i < R; i++) { ir[i] = (UINT32)(x % R); x /= R; }
#endif
#if OFV_FINAL == 3
		for (i = 0; i < C; i++) { ic[i] = (UINT32)(x % C); x /= C; }
#endif
#if OFV_FINAL == 4
		/* every permutation of the rows and of the columns (Lehmer code -> permutation by successive swaps) */
		for (i = R; i >= 2; i--) { UINT32 j = (UINT32)(x % i), t; x /= i; t = ir[i - 1]; ir[i - 1] = ir[j]; ir[j] = t; }
		for (i = C; i >= 2; i--) { UINT32 j = (UINT32)(x % i), t; x /= i; t = ic[i - 1]; ic[i - 1] = ic[j]; ic[j] = t; }
		ENSURES(injective(ir, R) && injective(ic, C), "sparse.harness.maps_injective");
#endif
		scenario(a, b, ir, ic);
		nscen++;
	}
	ENSURES(nscen >= 1, "sparse.scenarios_ran");
	REACHED("end");
	OFV_MAIN_RETURN;
}
