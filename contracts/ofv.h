/* ofv.h — harness vocabulary shared by the CBMC build and the native replay build.
 *
 * A harness enforces a function contract on the REAL function from /repo:
 *     inputs (IN/IN_MEM) ; REQUIRES(pre) ; call ; ENSURES(post,"name") ; REACHED("tag")
 * Under CBMC the inputs are unconstrained (nondeterministic) and REQUIRES/ENSURES are
 * __CPROVER_assume/__CPROVER_assert.  With -DOFV_NATIVE the same file is compiled by gcc with
 * ASan/UBSan against the same /repo sources; inputs come from the counterexample file named by
 * $OFV_REPLAY ("name value" lines), REQUIRES aborts the replay if the inputs do not satisfy the
 * precondition, ENSURES prints REPLAY-FAIL <name>.
 */
#ifndef OFV_H
#define OFV_H
#include <stdlib.h>
#include <string.h>
#include <stdint.h>

#ifdef OFV_NATIVE
#include <stdio.h>
long long ofv_get(const char *name);
extern int ofv_failed;
#define IN(type, var)            ((var) = (type)ofv_get(#var))
#define IN_MEM(type, var, lval)  ((lval) = (type)((var) = (type)ofv_get(#var)))
long long ofv_get_i(const char *name, long i);
#define IN_MEM_I(type, arr, i, lval) ((lval) = (type)((arr)[i] = (type)ofv_get_i(#arr, (long)(i))))
#define IN_I(type, arr, i)       ((arr)[i] = (type)ofv_get_i(#arr, (long)(i)))
long long ofv_get_ij(const char *name, long i, long j);
#define IN_IJ(type, arr, i, j)   ((arr)[i][j] = (type)ofv_get_ij(#arr, (long)(i), (long)(j)))
#define REQUIRES(c)      do { if (!(c)) { printf("REPLAY-PRECONDITION-NOT-MET %s\n", #c); exit(3); } } while (0)
#define ENSURES(c, name) do { if (!(c)) { printf("REPLAY-FAIL %s\n", name); ofv_failed = 1; } } while (0)
#define REACHED(tag)     do { printf("REPLAY-REACHED %s\n", tag); } while (0)
#define OFV_MALLOC(n)    ofv_exact_alloc(n)
void *ofv_exact_alloc(size_t n);
#define OFV_MAIN_RETURN  return ofv_failed ? 1 : 0
#else
#define IN(type, var)            do { type ofv_nd_##var; (var) = ofv_nd_##var; } while (0)
#define IN_MEM(type, var, lval)  ((var) = (type)(lval))
#define IN_MEM_I(type, arr, i, lval) ((arr)[i] = (type)(lval))
#define IN_I(type, arr, i)       do { type ofv_nd_i; (arr)[i] = ofv_nd_i; } while (0)
#define IN_IJ(type, arr, i, j)   do { type ofv_nd_ij; (arr)[i][j] = ofv_nd_ij; } while (0)
#define REQUIRES(c)      __CPROVER_assume(c)
#define ENSURES(c, name) __CPROVER_assert(c, name)
/* vacuity canary: must be reported FAILURE by cbmc, i.e. this point is reachable under the precondition */
#define REACHED(tag)     __CPROVER_assert(0, "ofv.canary." tag)
#define OFV_MALLOC(n)    malloc(n)
#define OFV_MAIN_RETURN  return 0
#endif

#endif
