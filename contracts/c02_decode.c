/* C02 / C01 (Reed-Solomon) — contract of the decoding cores of_rs_decode (legacy GF(2^8), OFV_CODEC 1) and of_rs_2m_decode
 * (GF(2^m), OFV_CODEC 2, OFV_M), enforced on the real functions together with the real generator construction and the real
 * encoders:
 *   requires  a code built by the real of_rs_new / of_rs_2m_build_encoding_matrix for constants (k, n) = (OFV_K, OFV_N);
 *             k packets: every received source symbol at its own position (index[i] == i), the gaps filled with received
 *             repair symbols in increasing ESI order — exactly what of_rs_finish_decoding hands over (that the API layer
 *             calls the core within this precondition is obligation core.decode_called_within_its_precondition of C10);
 *             the packets carry the encoder's output (real of_rs_encode / of_rs_2m_encode) for ARBITRARY source data
 *   ensures   returns OF_STATUS_OK and packet i holds source symbol i, byte for byte                 decode.recovers_source
 *             for EVERY k-subset of the n symbols (all subsets enumerated inside the run: "any k of n")
 * BOUNDED in (k, n): one run per pair; symbol length OFV_LEN; all source data symbolic; multiply-accumulate kernels replaced
 * by their C13 contracts at the call sites.
 * "Any k rows of G are invertible" beyond these (k, n) is the Vandermonde theorem on distinct points (distinctness: C14) — TRUSTED.
 */
#include "ofv.h"
#include "of_openfec_api.h"
#if OFV_CODEC == 1
#include "lib_stable/reed-solomon_gf_2_8/of_reed-solomon_gf_2_8.c"
#include "lib_stable/reed-solomon_gf_2_m/galois_field_codes_utils/algebra_2_8.h"
#else
#include "lib_stable/reed-solomon_gf_2_m/of_reed-solomon_gf_2_m_includes.h"
#endif
#ifndef OFV_NATIVE
/* TRUSTED: cbmc 6.11 ships no model of bcopy(3); this is its definition */
void bcopy(const void *src, void *dst, size_t n) { memmove(dst, src, n); }
#undef bcmp
int bcmp(const void *a, const void *b, size_t n) { return memcmp(a, b, n); }	/* likewise bcmp(3) */
#endif
/* kernel contracts (C13) standing for the kernels at their call sites inside the cores (goto-instrument --replace-calls):
 * dst[i] ^= c * src[i] for i < sz, nothing else. (The real kernels form a pointer before the buffer for sz < 15, which CBMC's
 * object model mis-compares when the buffer is a matrix row allocated by the library itself; see C13's trusted note.) */
#if OFV_CODEC == 1
void stub_addmul1(gf *dst, gf *src, gf c, int sz) { int i; for (i = 0; i < sz; i++) dst[i] ^= of_gf_mul_table[c][src[i]]; }
#else
void stub_addmul1_2_8(gf *dst, gf *src, gf c, int sz) { int i; for (i = 0; i < sz; i++) dst[i] ^= of_gf_2_8_mul_table[c][src[i]]; }
void stub_addmul1_2_4(gf *dst, gf *src, gf c, int sz) { int i; for (i = 0; i < sz; i++) dst[i] ^= of_gf_2_4_mul_table[c][src[i]]; }
void stub_addmul1_2_4_compact(gf *dst, gf *src, gf c, int sz)
{ int i; for (i = 0; i < sz; i++) dst[i] ^= (gf)((of_gf_2_4_mul_table[c][src[i] >> 4] << 4) | of_gf_2_4_mul_table[c][src[i] & 15]); }
#endif
#define K OFV_K
#define NN OFV_N
#define LEN OFV_LEN
#define SL 16

UINT8 in_src[K][LEN];
UINT32 g_mask;

int main(void)
{
	UINT8 enc[NN][SL + LEN], work[K][SL + LEN];
	void *tab[NN], *pkt[K];
	int index[K];
	UINT32 i, b, mask, nsub = 0;
#if OFV_CODEC == 1
	struct fec_parms *code;
	unsigned a;
	for (a = 0; a < 256; a++)
		memcpy(of_gf_mul_table[a], of_gf_2_8_mul_table[a], 256);
	for (a = 0; a < 255; a++) { of_rs_gf_exp[a] = of_rs_gf_exp[a + 255] = of_gf_2_8_exp[a]; of_rs_gf_log[of_gf_2_8_exp[a]] = (int)a; }
	of_rs_gf_log[0] = 255;
	for (a = 0; a < 256; a++) of_rs_inverse[a] = of_gf_2_8_inv[a];
	of_rs_initialized = 1;		/* tables as of_rs_init leaves them (C14) */
	code = (struct fec_parms *)of_rs_new(K, NN);
	REQUIRES(code != NULL);
#else
	of_rs_2_m_cb_t cb;
	memset(&cb, 0, sizeof cb);
	cb.m = OFV_M; cb.field_size = (1u << OFV_M) - 1; cb.nb_source_symbols = K; cb.nb_repair_symbols = NN - K; cb.nb_encoding_symbols = NN;
	cb.encoding_symbol_length = LEN;
	REQUIRES(of_rs_2m_build_encoding_matrix((of_galois_field_code_cb_t *)&cb) == OF_STATUS_OK);
#endif
	/* arbitrary source block, encoded by the real encoder */
	for (i = 0; i < K; i++)
		for (b = 0; b < LEN; b++) { IN_IJ(UINT8, in_src, i, b); enc[i][SL + b] = in_src[i][b]; }
	for (i = 0; i < NN; i++) tab[i] = enc[i] + SL;
	for (i = K; i < NN; i++) {
#if OFV_CODEC == 1
		REQUIRES(of_rs_encode(code, tab, tab[i], (int)i, LEN) == OF_STATUS_OK);
#else
		REQUIRES(of_rs_2m_encode((of_galois_field_code_cb_t *)&cb, (gf **)tab, tab[i], (int)i, LEN) == OF_STATUS_OK);
#endif
	}
	/* every k-subset of the n encoding symbols */
	for (mask = 0; mask < (1u << NN); mask++) {
		UINT32 cnt = 0, rep = K, pos;
		of_status_t ret;
		for (i = 0; i < NN; i++) cnt += (mask >> i) & 1;
		if (cnt != K)
			continue;
#ifdef OFV_MASK
		if (mask != OFV_MASK)	/* one run per k-subset (parallelism only): the driver enumerates all of them */
			continue;
#endif
		g_mask = mask;
		for (pos = 0; pos < K; pos++) {
			UINT32 esi;
			if ((mask >> pos) & 1)
				esi = pos;
			else {
				while (!((mask >> rep) & 1)) rep++;
				esi = rep++;
			}
			index[pos] = (int)esi;
			memcpy(work[pos] + SL, enc[esi] + SL, LEN);	/* the core works on (and modifies) copies */
			pkt[pos] = work[pos] + SL;
		}
#if OFV_CODEC == 1
		ret = of_rs_decode(code, pkt, index, LEN);
#else
		ret = of_rs_2m_decode((of_galois_field_code_cb_t *)&cb, (gf **)pkt, index, LEN);
#endif
		ENSURES(ret == OF_STATUS_OK, "decode.returns_ok");
		for (i = 0; i < K; i++)
			for (b = 0; b < LEN; b++)
				ENSURES(((UINT8 *)pkt[i])[b] == in_src[i][b], "decode.recovers_source");
		nsub++;
	}
	ENSURES(nsub >= 1, "decode.subsets_enumerated");
	REACHED("end");
	OFV_MAIN_RETURN;
}
