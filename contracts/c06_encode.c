/* C06 — encoders emit the canonical codeword of the configured code; contracts enforced on the real functions.
 * OFV_T 1  GF(2^m) codec generator: of_rs_2m_build_encoding_matrix for constants (OFV_M, OFV_K, OFV_N), every cell checked:
 *            top k x k block == identity;  for every repair row i and column c:  XOR_t G[i][t]*V[t][c] == V[i][c]
 *          where V is the n x k Vandermonde matrix on the points 0, 1, a, a^2, ... (V[0] = (1,0,..,0), V[t][c] = a^((t-1)c)),
 *          products and powers by the shift-and-reduce spec (spec_gf.h), i.e. G = V * V_top^-1: the systematic generator.
 *       2  legacy GF(2^8) codec generator: of_rs_new(k, n), same equation (tables preset to the field: C14 proves that is what
 *          of_rs_init produces), and equality with the GF(2^m) codec's matrix for m = 8 (byte compatibility of codec 1 and 2)
 *       3  of_rs_2m_encode (OFV_M): for an ARBITRARY generator row and arbitrary sources (k = OFV_K, length OFV_LEN constants):
 *            fec[b] == XOR_i G[esi][i] * src_i[b] (per nibble for m = 4), sources untouched; esi < k copies; esi >= n is an error
 *       4  of_rs_encode (legacy), same contract relative to its multiplication table (arbitrary contents; C14)
 *       5  API wrappers of_build_repair_symbol -> of_rs_build_repair_symbol / of_rs_2_m_build_repair_symbol (OFV_CODEC), core
 *          replaced by recording stubs: NULL output slot replaced by a zeroed library allocation of `length` bytes, bad ESI
 *          rejected with nothing touched, the codec core is called once with (k, n) and the right row / buffers
 *       6  of_ldpc_staircase_build_repair_symbol / of_2d_parity_build_repair_symbol (OFV_CODEC 3 / 5) specified against ONE ROW
 *          of the parity-check matrix (built by hand through the real insert; columns of the row: bit mask OFV_MASK):
 *            built symbol == XOR of the other symbols of the row (the unique value making the equation sum to zero),
 *            sources untouched, missing operand => error, NULL output slot replaced by a library allocation as documented
 */
#include "ofv.h"
#include "spec_gf.h"
#include "of_openfec_api.h"

#if OFV_T == 1 || OFV_T == 3
#include "lib_stable/reed-solomon_gf_2_m/of_reed-solomon_gf_2_m_includes.h"
#endif

#ifndef OFV_NATIVE
/* TRUSTED: cbmc 6.11 ships no model of bcopy(3); this is its definition (memmove with swapped arguments) */
void bcopy(const void *src, void *dst, size_t n) { memmove(dst, src, n); }
#endif

static unsigned spec_pow(unsigned a, unsigned e, unsigned poly, unsigned m)
{
	unsigned r = 1, i;
	for (i = 0; i < e; i++)
		r = spec_gf_mul(r, a, poly, m);
	return r;
}

#if OFV_T == 1 || OFV_T == 2
#if OFV_T == 2
#include "lib_stable/reed-solomon_gf_2_8/of_reed-solomon_gf_2_8.c"
#include "lib_stable/reed-solomon_gf_2_m/galois_field_codes_utils/algebra_2_8.h"
#define OFV_M 8
#endif
#define POLY (OFV_M == 4 ? SPEC_POLY_4 : SPEC_POLY_8)
#define ORDER ((1u << OFV_M) - 1)
static unsigned V(unsigned t, unsigned c)
{
	if (t == 0)
		return c == 0;
	return spec_pow(2, ((t - 1) * c) % ORDER, POLY, OFV_M);
}
int main(void)
{
	UINT32 i, c, t;
	gf *G;
#if OFV_T == 1
	of_rs_2_m_cb_t cb;
	memset(&cb, 0, sizeof cb);
	cb.m = OFV_M; cb.field_size = ORDER; cb.nb_source_symbols = OFV_K; cb.nb_repair_symbols = OFV_N - OFV_K;
	cb.nb_encoding_symbols = OFV_N;
	REQUIRES(of_rs_2m_build_encoding_matrix((of_galois_field_code_cb_t *)&cb) == OF_STATUS_OK);
	G = cb.enc_matrix;
#else
	struct fec_parms *code;
	unsigned a;
	/* tables as of_rs_init leaves them (C14: equal to the field), filled here from the spec so that the run stays concrete */
	for (a = 0; a < 256; a++)
		memcpy(of_gf_mul_table[a], of_gf_2_8_mul_table[a], 256);
	for (a = 0; a < 255; a++) { of_rs_gf_exp[a] = of_rs_gf_exp[a + 255] = of_gf_2_8_exp[a]; of_rs_gf_log[of_gf_2_8_exp[a]] = (int)a; }
	of_rs_gf_log[0] = 255;
	for (a = 0; a < 256; a++) of_rs_inverse[a] = of_gf_2_8_inv[a];
	of_rs_initialized = 1;
	code = (struct fec_parms *)of_rs_new(OFV_K, OFV_N);
	REQUIRES(code != NULL);
	G = code->enc_matrix;
#endif
	for (i = 0; i < OFV_K; i++)
		for (c = 0; c < OFV_K; c++)
			ENSURES(G[i * OFV_K + c] == (i == c), "generator.top_block_is_identity");
	for (i = OFV_K; i < OFV_N; i++)
		for (c = 0; c < OFV_K; c++) {
			unsigned acc = 0;
			for (t = 0; t < OFV_K; t++)
				acc ^= spec_gf_mul(G[i * OFV_K + t], V(t, c), POLY, OFV_M);
			ENSURES(acc == V(i, c), "generator.repair_row_times_Vtop_equals_Vrow");
		}
	REACHED("end");
	OFV_MAIN_RETURN;
}

#elif OFV_T == 3 || OFV_T == 4
#if OFV_T == 4
#include "lib_stable/reed-solomon_gf_2_8/of_reed-solomon_gf_2_8.c"
#define OFV_M 8
#endif
#define K OFV_K
#define LEN OFV_LEN
UINT32 in_esi, in_n;
UINT8 in_g[K], in_src[K][LEN], in_fec[LEN];
int main(void)
{
	UINT32 i, b;
	/* 16 bytes of leading slack inside each object: the kernels form &dst[sz-16+1] (see C13's trusted note) */
	UINT8 srcobj[K][16 + LEN], fecobj[16 + LEN], *tab[K + 1];
	UINT8 *fec = fecobj + 16;
#define src(i) (srcobj[i] + 16)
	of_status_t ret;
	gf G[(K + 2) * K];
#if OFV_T == 3
	of_rs_2_m_cb_t cb;
#else
	struct fec_parms code;
#endif
	in_esi = OFV_ESI;	/* harness constant: a source index, each repair row, and the first invalid index are separate runs */
	in_n = K + 2;
	for (i = 0; i < K; i++) {
		IN_I(UINT8, in_g, i);
#if OFV_M == 4
		REQUIRES(in_g[i] < 16);
#endif
		for (b = 0; b < LEN; b++) { IN_IJ(UINT8, in_src, i, b); src(i)[b] = in_src[i][b]; }
		tab[i] = src(i);
	}
	tab[K] = fec;
	for (b = 0; b < LEN; b++) { IN_I(UINT8, in_fec, b); fec[b] = in_fec[b]; }
	memset(G, 0, sizeof G);
	REQUIRES(in_esi <= in_n + 1);
	if (in_esi < in_n)
		for (i = 0; i < K; i++) G[in_esi * K + i] = in_g[i];	/* an arbitrary generator row */
#if OFV_T == 3
	memset(&cb, 0, sizeof cb);
	cb.m = OFV_M; cb.field_size = (1u << OFV_M) - 1; cb.nb_source_symbols = K; cb.nb_repair_symbols = 2; cb.nb_encoding_symbols = K + 2;
	cb.enc_matrix = G;
	ret = of_rs_2m_encode((of_galois_field_code_cb_t *)&cb, (gf **)tab, fec, (int)in_esi, LEN);
#else
	code.k = K; code.n = K + 2; code.enc_matrix = G; code.magic = 0;
	ret = of_rs_encode(&code, (void **)tab, fec, (int)in_esi, LEN);
#endif
	if (in_esi >= in_n) {
		ENSURES(ret != OF_STATUS_OK, "encode.bad_index_rejected");
		for (b = 0; b < LEN; b++) ENSURES(fec[b] == in_fec[b], "encode.bad_index_leaves_output");
	} else if (in_esi < K) {
		for (b = 0; b < LEN; b++) ENSURES(fec[b] == in_src[in_esi][b], "encode.source_index_copies_the_source");
	} else {
		ENSURES(ret == OF_STATUS_OK, "encode.returns_ok");
		for (b = 0; b < LEN; b++) {
			UINT8 want = 0;
			for (i = 0; i < K; i++) {
#if OFV_T == 4
				want ^= in_g[i] ? of_gf_mul_table[in_g[i]][in_src[i][b]] : 0;	/* 0 * x = 0 in the field; the table has arbitrary contents here */
#elif OFV_M == 8
				want ^= of_gf_2_8_mul_table[in_g[i]][in_src[i][b]];
#else
				want ^= (UINT8)((of_gf_2_4_mul_table[in_g[i]][in_src[i][b] >> 4] << 4) | of_gf_2_4_mul_table[in_g[i]][in_src[i][b] & 15]);
#endif
			}
			ENSURES(fec[b] == want, "encode.fec_is_row_times_sources");
		}
	}
	for (i = 0; i < K; i++)
		for (b = 0; b < LEN; b++)
			ENSURES(src(i)[b] == in_src[i][b], "encode.sources_untouched");
	REACHED("end");
	OFV_MAIN_RETURN;
}

#elif OFV_T == 5
#if OFV_CODEC == 1
#include "lib_stable/reed-solomon_gf_2_8/of_reed-solomon_gf_2_8_includes.h"
typedef of_rs_cb_t cb_t;
#define CODEC_ID OF_CODEC_REED_SOLOMON_GF_2_8_STABLE
#else
#include "lib_stable/reed-solomon_gf_2_m/of_reed-solomon_gf_2_m_includes.h"
typedef of_rs_2_m_cb_t cb_t;
#define CODEC_ID OF_CODEC_REED_SOLOMON_GF_2_M_STABLE
#endif
#define NMAX 6
UINT32 in_k, in_r, in_len, in_esi, in_null_slot, in_twice, g_i;
static UINT32 new_calls, new_k, new_n, enc_calls, enc_bad;
static void *enc_dst; static int enc_index, enc_sz; static void **enc_src; static void *enc_code;
#if OFV_CODEC == 1
void *stub_rs_new(UINT32 k, UINT32 n) { new_calls++; new_k = k; new_n = n; return OFV_MALLOC(1); }
of_status_t stub_rs_encode(void *code, void **src, void *dst, int index, int sz)
{ enc_calls++; enc_code = code; enc_src = src; enc_dst = dst; enc_index = index; enc_sz = sz; if (code == NULL || dst == NULL) enc_bad++; return OF_STATUS_OK; }
#else
of_status_t stub_rs_2m_build_encoding_matrix(of_galois_field_code_cb_t *cb) { new_calls++; new_k = cb->nb_source_symbols; new_n = cb->nb_source_symbols + cb->nb_repair_symbols; ((cb_t *)cb)->enc_matrix = OFV_MALLOC(1); return OF_STATUS_OK; }
of_status_t stub_rs_2m_encode(of_galois_field_code_cb_t *cb, gf *src[], gf *dst, int index, int sz)
{ enc_calls++; enc_code = cb; enc_src = (void **)src; enc_dst = dst; enc_index = index; enc_sz = sz; if (((cb_t *)cb)->enc_matrix == NULL || dst == NULL) enc_bad++; return OF_STATUS_OK; }
#endif
int main(void)
{
	of_session_t *ses = NULL;
	void *tab[NMAX], *tab0[NMAX];
	UINT8 bufs[NMAX][4];
	UINT32 i, n;
	of_status_t ret;
	IN(UINT32, in_k); IN(UINT32, in_r); IN(UINT32, in_len); IN(UINT32, in_esi); IN(UINT32, in_null_slot); IN(UINT32, in_twice); IN(UINT32, g_i);
	REQUIRES(in_k >= 1 && in_r >= 1 && in_k + in_r <= NMAX && in_len >= 1 && in_len <= 4 && in_null_slot <= 1 && in_twice <= 1);
	n = in_k + in_r;
	REQUIRES(g_i < NMAX && in_esi <= n + 1);
	REQUIRES(of_create_codec_instance(&ses, CODEC_ID, OF_ENCODER, 0) == OF_STATUS_OK && ses != NULL);
	{
#if OFV_CODEC == 1
		of_rs_parameters_t p; memset(&p, 0, sizeof p);
#else
		of_rs_2_m_parameters_t p; memset(&p, 0, sizeof p); p.m = 8;
#endif
		p.nb_source_symbols = in_k; p.nb_repair_symbols = in_r; p.encoding_symbol_length = in_len;
		REQUIRES(of_set_fec_parameters(ses, (of_parameters_t *)&p) == OF_STATUS_OK);
	}
	for (i = 0; i < NMAX; i++) tab[i] = (i < n) ? (void *)bufs[i] : NULL;
	if (in_null_slot && in_esi < n) tab[in_esi] = NULL;
	for (i = 0; i < NMAX; i++) tab0[i] = tab[i];
	if (in_twice && in_esi >= in_k && in_esi < n) {		/* an earlier encoding on the same session: the core is created once */
		UINT32 e2 = in_k;
		REQUIRES(of_build_repair_symbol(ses, tab, e2) == OF_STATUS_OK);
		new_calls = 0; enc_calls = 0;
		for (i = 0; i < NMAX; i++) tab0[i] = tab[i];
		ret = of_build_repair_symbol(ses, tab, in_esi);
		ENSURES(new_calls == 0, "build_repair.core_created_once_per_session");
	} else {
		ret = of_build_repair_symbol(ses, tab, in_esi);
		if (in_esi >= in_k && in_esi < n)
			ENSURES(new_calls == 1 && new_k == in_k && new_n == n, "build_repair.core_created_with_k_n");
	}
	if (in_esi < in_k || in_esi >= n) {
		ENSURES(ret != OF_STATUS_OK, "build_repair.bad_esi_rejected");
		ENSURES(enc_calls == 0 && tab[g_i] == tab0[g_i], "build_repair.bad_esi_touches_nothing");
	} else {
		ENSURES(ret == OF_STATUS_OK, "build_repair.returns_ok");
		ENSURES(enc_calls == 1 && enc_bad == 0 && enc_index == (int)in_esi && enc_sz == (int)in_len && enc_src == tab && enc_dst == tab[in_esi], "build_repair.core_called_with_row_and_buffers");
		ENSURES(tab[in_esi] != NULL, "build_repair.null_slot_replaced");
		ENSURES(g_i == in_esi || tab[g_i] == tab0[g_i], "build_repair.other_slots_untouched");
		ENSURES(tab0[in_esi] == NULL || tab[in_esi] == tab0[in_esi], "build_repair.application_buffer_kept");
		if (tab0[in_esi] == NULL && tab[in_esi] != NULL) {
			ENSURES(__CPROVER_OBJECT_SIZE(tab[in_esi]) == in_len, "build_repair.allocated_slot_has_symbol_length");
		}
	}
	REACHED("end");
	OFV_MAIN_RETURN;
}

#else /* OFV_T == 6 */
#if OFV_CODEC == 3
#include "lib_stable/ldpc_staircase/of_ldpc_includes.h"
typedef of_ldpc_staircase_cb_t cb_t;
#define BUILD of_ldpc_staircase_build_repair_symbol
#else
#include "lib_stable/2d_parity_matrix/of_2d_parity_includes.h"
typedef of_2d_parity_cb_t cb_t;
#define BUILD of_2d_parity_build_repair_symbol
#endif
#define K OFV_K
#define RR OFV_R
#define NN (K + RR)
#define LEN OFV_LEN
UINT32 in_esi, in_null_slot, in_missing, g_b;
UINT8 in_sym[NN][LEN];
int main(void)
{
	cb_t cb;
	void *tab[NN], *tab0[NN];
	UINT8 bufs[NN][LEN];
	UINT32 i, b, row, col, missing_in_row = 0;
	of_status_t ret;
	IN(UINT32, in_esi); IN(UINT32, in_null_slot); IN(UINT32, in_missing); IN(UINT32, g_b);
	in_esi = OFV_ESI;	/* the row under test belongs to this repair symbol (harness constant) */
	REQUIRES(in_null_slot <= 1 && in_missing <= NN && g_b < LEN);
	memset(&cb, 0, sizeof cb);
	cb.nb_source_symbols = K; cb.nb_repair_symbols = RR; cb.nb_total_symbols = NN; cb.encoding_symbol_length = LEN;
	cb.codec_type = OF_ENCODER;
	cb.pchk_matrix = of_mod2sparse_allocate(RR, NN);
	REQUIRES(cb.pchk_matrix != NULL);
	row = in_esi - K;		/* matrix column of repair symbol esi is esi - k; its equation is the row of the same index */
	for (col = 0; col < NN; col++)
		if (((OFV_MASK >> col) & 1u) || col == row)
			of_mod2sparse_insert(cb.pchk_matrix, row, col);
	for (i = 0; i < NN; i++) {
		for (b = 0; b < LEN; b++) { IN_IJ(UINT8, in_sym, i, b); bufs[i][b] = in_sym[i][b]; }
		tab[i] = bufs[i];
	}
	if (in_missing < NN && in_missing != in_esi) tab[in_missing] = NULL;	/* possibly one operand missing */
	if (in_null_slot) tab[in_esi] = NULL;
	for (i = 0; i < NN; i++) tab0[i] = tab[i];
	for (col = 0; col < NN; col++) {
		UINT32 esi = (col < RR) ? col + K : col - RR;
		if ((((OFV_MASK >> col) & 1u) && col != row) && tab[esi] == NULL) missing_in_row = 1;
	}
	ret = BUILD(&cb, tab, in_esi);
	if (missing_in_row) {
		ENSURES(ret != OF_STATUS_OK, "build_repair.missing_operand_is_an_error");
	} else {
		UINT8 want = 0;
		ENSURES(ret == OF_STATUS_OK, "build_repair.returns_ok");
		for (col = 0; col < NN; col++) {
			UINT32 esi = (col < RR) ? col + K : col - RR;
			if (((OFV_MASK >> col) & 1u) && col != row) want ^= in_sym[esi][g_b];
		}
		ENSURES(tab[in_esi] != NULL, "build_repair.null_slot_replaced");
		if (tab[in_esi] != NULL)
			ENSURES(((UINT8 *)tab[in_esi])[g_b] == want, "build_repair.equation_sums_to_zero");
		ENSURES(tab0[in_esi] == NULL || tab[in_esi] == tab0[in_esi], "build_repair.application_buffer_kept");
	}
	for (i = 0; i < NN; i++)
		if (i != in_esi) {
			ENSURES(tab[i] == tab0[i], "build_repair.other_slots_untouched");
			ENSURES(bufs[i][g_b] == in_sym[i][g_b], "build_repair.sources_untouched");
		}
	REACHED("end");
	OFV_MAIN_RETURN;
}
#endif
