/* C10 / C11 / C07 / C02(plumbing) — contracts of the Reed-Solomon API layer, enforced on the real functions of
 * of_reed-solomon_gf_2_8_api.c (OFV_CODEC 1) / of_reed-solomon_gf_2_m_api.c (OFV_CODEC 2), reached through the real dispatch
 * layer (of_openfec_api.c).
 *
 * The session is in an ARBITRARY state satisfying the representation invariant valid_rs_session (so one step from such a state,
 * with the invariant re-established, covers every protocol-conforming history by induction on its length):
 *   1 <= k, 1 <= n-k, n <= OFV_NMAX, 1 <= length <= OFV_LMAX; availability table of n entries, each NULL or an application buffer
 *   of `length` bytes; while decoding is not finished, nb_available_symbols / nb_available_source_symbols == number of non-NULL entries among the first n / k;
 *   decoding_finished ==> all k source entries non-NULL; callback registered or not.
 * BOUNDED in n (table loops, counting clauses): one run per (k, n-k, length), n <= OFV_NMAX, length <= OFV_LMAX;
 * which symbols are received, their contents, the ESI, the role, the callback's behaviour: symbolic.
 *
 * The codec core is replaced by contract stubs (goto-instrument --replace-calls): of_rs_new/of_rs_free (allocation pair),
 * of_rs_decode / of_rs_2m_decode / of_rs_2m_build_encoding_matrix. The decode stub CHECKS the callee's precondition at the call
 * (k packets of `length` bytes, index[i] == i for a received source, else a distinct repair ESI in k..n-1 whose packet is that
 * repair symbol's data) and then writes arbitrary bytes into the packets it is allowed to modify, returning OF_STATUS_OK (its
 * own contract, "returns the source symbols", is C02/C01's inversion contract).
 *
 * OFV_FN: 1 of_decode_with_new_symbol   2 of_set_available_symbols   3 of_finish_decoding   4 queries
 */
#include "ofv.h"
#include "of_openfec_api.h"
#if OFV_CODEC == 1
#include "lib_stable/reed-solomon_gf_2_8/of_reed-solomon_gf_2_8_includes.h"
typedef of_rs_cb_t cb_t;
#define CODEC_ID OF_CODEC_REED_SOLOMON_GF_2_8_STABLE
#else
#include "lib_stable/reed-solomon_gf_2_m/of_reed-solomon_gf_2_m_includes.h"
typedef of_rs_2_m_cb_t cb_t;
#define CODEC_ID OF_CODEC_REED_SOLOMON_GF_2_M_STABLE
#endif
#ifndef OFV_NMAX
#define OFV_NMAX 5
#endif
#ifndef OFV_LMAX
#define OFV_LMAX 2
#endif
#define N OFV_NMAX
#define L OFV_LMAX

UINT32 in_k, in_r, in_len, in_role, in_esi, in_use_cb, in_finished, g_i, g_b;
UINT32 in_recv[N], in_recv2[N], in_cb_null[N];
UINT8 in_bytes[N][L];

/* ---- ghost state of the stubs and of the callback ---- */
static cb_t *the_cb;
static UINT32 cb_calls[N], cb_total, cb_bad_args, decode_calls, decode_pre_violations;
static void *cb_returned[N];
static UINT8 appbuf[N][L];		/* application buffers of the received symbols */
static UINT8 decoded_val[N][L];		/* what the decode stub wrote into packet i */
static void *tab_before[N];
static void *known[N];		/* symbols the decoder may legitimately use: received before, or submitted by this call */

static void *cb_src(void *ctx, UINT32 size, UINT32 esi)
{
	void *p;
	cb_total++;
	if (ctx != (void *)&cb_total || size != in_len || esi >= in_k) { cb_bad_args++; return NULL; }
	cb_calls[esi]++;
	p = in_cb_null[esi] ? NULL : OFV_MALLOC(in_len);
	cb_returned[esi] = p;
	return p;
}

/* contract stub of of_rs_decode / of_rs_2m_decode */
static of_status_t decode_contract(void **pkt, int *index, int sz)
{
	UINT32 i, j;
	decode_calls++;
	if ((UINT32)sz != in_len) decode_pre_violations++;
	for (i = 0; i < N; i++) {
		if (i >= in_k) break;
		if (index[i] < 0 || (UINT32)index[i] >= in_k + in_r) { decode_pre_violations++; continue; }
		if ((UINT32)index[i] < in_k && (UINT32)index[i] != i) decode_pre_violations++;		/* a source sits at its own position */
		for (j = 0; j < i; j++) if (index[j] == index[i]) decode_pre_violations++;		/* distinct symbols */
		if (known[index[i]] == NULL) decode_pre_violations++;					/* only received symbols */
		else if (((UINT8 *)pkt[i])[g_b % in_len] != appbuf[index[i]][g_b % in_len]) decode_pre_violations++;	/* carrying their data */
	}
	for (i = 0; i < N; i++) {
		if (i >= in_k) break;
		for (j = 0; j < L; j++) if (j < in_len) {
#ifdef OFV_NATIVE
			UINT8 v = (UINT8)(i * 16 + j + 1);
#else
			UINT8 v; { UINT8 nd; v = nd; }
#endif
			if ((UINT32)index[i] >= in_k) {		/* the core may overwrite the packets it was given: repair slots become sources */
				((UINT8 *)pkt[i])[j] = v;
			} else
				v = ((UINT8 *)pkt[i])[j];
			decoded_val[i][j] = v;
			index[i] = (int)i;
		}
	}
	return OF_STATUS_OK;
}
#if OFV_CODEC == 1
struct of_rs_parms;
void *stub_rs_new(UINT32 k, UINT32 n) { if (k != in_k || n != in_k + in_r) decode_pre_violations++; return OFV_MALLOC(1); }
void stub_rs_free(void *p) { free(p); }
of_status_t stub_rs_decode(void *code, void **pkt, int index[], int sz) { if (code == NULL) decode_pre_violations++; return decode_contract(pkt, index, sz); }
#else
of_status_t stub_rs_2m_build_encoding_matrix(of_galois_field_code_cb_t *cb) { ((cb_t *)cb)->enc_matrix = OFV_MALLOC(1); return OF_STATUS_OK; }
of_status_t stub_rs_2m_decode(of_galois_field_code_cb_t *cb, gf *pkt[], int index[], int sz) { if (((cb_t *)cb)->enc_matrix == NULL) decode_pre_violations++; return decode_contract((void **)pkt, index, sz); }
#endif

#ifdef OFV_NATIVE	/* native replay: the linker redirects the calls (-Wl,--wrap=...) to the same stubs */
#if OFV_CODEC == 1
void *__wrap_of_rs_new(UINT32 k, UINT32 n) { return stub_rs_new(k, n); }
void __wrap_of_rs_free(void *p) { stub_rs_free(p); }
of_status_t __wrap_of_rs_decode(void *code, void **pkt, int index[], int sz) { return stub_rs_decode(code, pkt, index, sz); }
#else
of_status_t __wrap_of_rs_2m_build_encoding_matrix(of_galois_field_code_cb_t *cb) { return stub_rs_2m_build_encoding_matrix(cb); }
of_status_t __wrap_of_rs_2m_decode(of_galois_field_code_cb_t *cb, gf *pkt[], int index[], int sz) { return stub_rs_2m_decode(cb, pkt, index, sz); }
#endif
#endif

static UINT32 count(cb_t *cb, UINT32 upto)
{
	UINT32 i, c = 0;
	for (i = 0; i < N; i++) if (i < upto && cb->available_symbols_tab[i] != NULL) c++;
	return c;
}

int main(void)
{
	of_session_t *ses = NULL;
	cb_t *cb;
	UINT32 i, j, n, old_avail, old_src, old_finished;
	of_status_t ret;
	UINT8 newsym[L];

	/* k, n-k and the symbol length are harness constants: one run per (k, n-k, length) with n <= OFV_NMAX */
	in_k = OFV_K; in_r = OFV_R; in_len = OFV_LEN;
	IN(UINT32, in_role); IN(UINT32, in_esi);
	IN(UINT32, in_use_cb); IN(UINT32, in_finished); IN(UINT32, g_i); IN(UINT32, g_b);
	REQUIRES(in_k >= 1 && in_r >= 1 && in_k + in_r <= N && in_len >= 1 && in_len <= L);
	REQUIRES(in_role == OF_DECODER || in_role == OF_ENCODER_AND_DECODER);
	REQUIRES(in_use_cb <= 1 && in_finished <= 1 && g_b < in_len);
	n = in_k + in_r;
	REQUIRES(g_i < n && in_esi < n);
	/* configured session from the real functions (C09 contract: valid, empty) */
	REQUIRES(of_create_codec_instance(&ses, CODEC_ID, (of_codec_type_t)in_role, 0) == OF_STATUS_OK && ses != NULL);
	{
#if OFV_CODEC == 1
		of_rs_parameters_t p; memset(&p, 0, sizeof p);
#else
		of_rs_2_m_parameters_t p; memset(&p, 0, sizeof p); p.m = 8;
#endif
		p.nb_source_symbols = in_k; p.nb_repair_symbols = in_r; p.encoding_symbol_length = in_len;
		REQUIRES(of_set_fec_parameters(ses, (of_parameters_t *)&p) == OF_STATUS_OK);
	}
	cb = (cb_t *)ses; the_cb = cb;
	if (in_use_cb)
		REQUIRES(of_set_callback_functions(ses, cb_src, NULL, &cb_total) == OF_STATUS_OK);
	/* ... moved to an arbitrary state satisfying valid_rs_session */
	for (i = 0; i < N; i++) {
		IN_I(UINT32, in_recv, i); IN_I(UINT32, in_recv2, i); IN_I(UINT32, in_cb_null, i);
		REQUIRES(in_recv[i] <= 1 && in_recv2[i] <= 1 && in_cb_null[i] <= 1);
		for (j = 0; j < L; j++) { IN_IJ(UINT8, in_bytes, i, j); appbuf[i][j] = in_bytes[i][j]; }
		if (i < n)
			cb->available_symbols_tab[i] = in_recv[i] ? (void *)appbuf[i] : NULL;
	}
	cb->nb_available_symbols = count(cb, n);
	cb->nb_available_source_symbols = count(cb, in_k);
	cb->decoding_finished = (in_finished != 0);
	REQUIRES(!cb->decoding_finished || cb->nb_available_source_symbols == in_k);
	if (cb->decoding_finished) {	/* counters are stale after completion: anything */
		UINT32 s1, s2;
#ifndef OFV_NATIVE
		{ UINT32 nd1, nd2; s1 = nd1; s2 = nd2; }
		cb->nb_available_symbols = s1; cb->nb_available_source_symbols = s2;
#endif
	}
	for (i = 0; i < N; i++) known[i] = tab_before[i] = (i < n) ? cb->available_symbols_tab[i] : NULL;
	old_avail = cb->nb_available_symbols; old_src = cb->nb_available_source_symbols; old_finished = cb->decoding_finished;

#if OFV_FN == 1
	{
		/* the submitted buffer: the application buffer of that ESI if it is new, another buffer if it is a duplicate */
		void *sub = (tab_before[in_esi] == NULL) ? (void *)appbuf[in_esi] : (void *)newsym;
		newsym[0] = 0x5a;
		if (tab_before[in_esi] == NULL && !old_finished) known[in_esi] = sub;
		ret = of_decode_with_new_symbol(ses, sub, in_esi);
	}
	ENSURES(ret == OF_STATUS_OK, "decode_new.returns_ok");
	if (old_finished) {
		ENSURES(cb->available_symbols_tab[g_i] == tab_before[g_i] && cb->nb_available_symbols == old_avail, "decode_new.after_completion_ignored");
	} else if (tab_before[in_esi] != NULL) {
		ENSURES(cb->available_symbols_tab[g_i] == tab_before[g_i] && cb->nb_available_symbols == old_avail && !cb->decoding_finished, "decode_new.duplicate_ignored");
	} else {
		ENSURES(cb->available_symbols_tab[in_esi] == (void *)appbuf[in_esi], "decode_new.stores_the_very_pointer");
		ENSURES(cb->decoding_finished == (old_avail + 1 >= in_k), "decode_new.complete_as_soon_as_k_symbols");
	}
#elif OFV_FN == 2
	{
		void *tab2[N];
		REQUIRES(!old_finished);
		for (i = 0; i < N; i++) tab2[i] = (i < n && in_recv2[i]) ? (void *)appbuf[i] : NULL;
		ret = of_set_available_symbols(ses, tab2);
		ENSURES(ret == OF_STATUS_OK, "set_available.returns_ok");
		ENSURES(cb->available_symbols_tab[g_i] == tab2[g_i], "set_available.table_is_the_argument");
		ENSURES(tab2[g_i] == ((in_recv2[g_i]) ? (void *)appbuf[g_i] : NULL), "set_available.argument_untouched");
		for (i = 0; i < N; i++) tab_before[i] = tab2[i];	/* (for the common clauses below) */
	}
#elif OFV_FN == 3
	ret = of_finish_decoding(ses);
	ENSURES(ret == OF_STATUS_OK || ret == OF_STATUS_FAILURE, "finish.status_is_ok_or_failure");
	ENSURES((ret == OF_STATUS_OK) == (cb->decoding_finished != 0), "finish.ok_iff_complete_afterwards");
	ENSURES((ret == OF_STATUS_FAILURE) == (!old_finished && old_avail < in_k), "finish.failure_iff_fewer_than_k");
	if (old_finished)
		ENSURES(cb->available_symbols_tab[g_i] == tab_before[g_i] && decode_calls == 0 && cb_total == 0, "finish.already_complete_is_noop");
#else
	{
		void *out[N], *out0[N];
		for (i = 0; i < N; i++) out[i] = out0[i] = (void *)&out0[i];
		ENSURES(of_is_decoding_complete(ses) == (old_finished != 0), "query.is_complete_is_the_flag");
		ret = of_get_source_symbols_tab(ses, out);
		ENSURES((ret == OF_STATUS_OK) == (old_finished != 0), "query.get_tab_ok_iff_complete");
		if (old_finished) {
			ENSURES(g_i >= in_k || out[g_i] == tab_before[g_i], "query.get_tab_returns_stored_pointers");
			ENSURES(g_i < in_k || out[g_i] == out0[g_i], "query.get_tab_writes_k_entries_only");
		} else
			ENSURES(out[g_i] == out0[g_i], "query.get_tab_error_leaves_table");
		ENSURES(cb->available_symbols_tab[g_i] == tab_before[g_i] && cb->decoding_finished == old_finished, "query.no_state_change");
	}
#endif
	/* ---- clauses common to every step ---- */
	ENSURES(!old_finished || cb->decoding_finished, "inv.complete_never_reverts");
	/* (the counters are only read while decoding is not finished; the library leaves them stale afterwards) */
	ENSURES(cb->decoding_finished || (cb->nb_available_symbols == count(cb, n) && cb->nb_available_source_symbols == count(cb, in_k)), "inv.counters_match_table_until_complete");
	ENSURES(!cb->decoding_finished || count(cb, in_k) == in_k, "inv.complete_implies_all_k_sources_available");
	ENSURES(decode_pre_violations == 0, "core.decode_called_within_its_precondition");
	ENSURES(decode_calls <= 1, "core.decoded_at_most_once");
	/* received symbols: pointer kept, bytes never written (C07, C10) */
#if OFV_FN != 2
	ENSURES(tab_before[g_i] == NULL || cb->available_symbols_tab[g_i] == tab_before[g_i], "frame.received_pointers_kept");
#endif
	ENSURES(appbuf[g_i][g_b] == in_bytes[g_i][g_b], "frame.received_symbol_bytes_untouched");
	/* callback contract (C11) */
	ENSURES(cb_bad_args == 0, "callback.args_are_length_and_source_esi");
	if (g_i < in_k) {
		int decoded_now = (tab_before[g_i] == NULL
#if OFV_FN == 1
				   && in_esi != g_i
#endif
				   && cb->available_symbols_tab[g_i] != NULL);
		ENSURES(cb_calls[g_i] == ((in_use_cb && decoded_now) ? 1u : 0u), "callback.exactly_once_per_decoded_source_never_for_received");
		if (decoded_now) {
			ENSURES(!in_use_cb || in_cb_null[g_i] || cb->available_symbols_tab[g_i] == cb_returned[g_i], "callback.buffer_is_what_get_tab_reports");
			ENSURES(((UINT8 *)cb->available_symbols_tab[g_i])[g_b] == decoded_val[g_i][g_b], "callback.decoded_value_stored");
		}
	}
	if (!in_use_cb)
		ENSURES(cb_total == 0, "callback.none_registered_none_called");
	REACHED("after_call");
	OFV_MAIN_RETURN;
}
