/* C18 (second half) — contract of of_linear_binary_code_solve_dense_system(ofcb, m, constant_tab, variable_tab)
 * [of_ml_tool.c], the symbol-level solver of ML decoding, enforced on the real function (and the real static helpers
 * triangularize / col_forward_elimination / backward_substitution, real dense matrix, real XOR kernels):
 *   requires  m: p x q dense matrix, p >= q (OFV_P, OFV_Q harness constants); constant_tab: p fresh symbols of `length` bytes
 *             (non-NULL: "symbol right-hand sides"); variable_tab: q NULL entries; ofcb->tmp_tab_symbols sized as its call
 *             site sizes it; the system is consistent: c = M x* for an arbitrary x* (all equations are true equations)
 *   ensures   ret == OF_STATUS_OK  <==>  M has full column rank (decided exactly: all 2^q kernel candidates enumerated)
 *             ret == OK ==> variable_tab[j] holds x*_j for every j (the unique solution)
 *   frame     pointer/bounds checks: nothing outside the matrix storage, the symbols and the two tables is accessed
 * OFV_MODE 0: every matrix bit symbolic (small p, q).
 * OFV_MODE 1: a concrete unit-lower-triangular all-ones matrix with extra all-ones rows (every elimination step XORs every row
 *             below), for column counts around the 32/64-bit word boundaries; right-hand sides symbolic.
 * OFV_MODE 2: a concrete unit-upper-triangular all-ones matrix (every back-substitution step adds every later variable).
 * BOUNDED in (p, q); symbol length 1 (the kernels' own contracts for every length are C13).
 */
#include "ofv.h"
#include "of_openfec_api.h"
#include "linear_binary_codes_utils/of_linear_binary_code.h"

#define P OFV_P
#define Q OFV_Q
UINT8 in_x[Q], in_bit[P][Q];

int main(void)
{
	of_linear_binary_code_cb_t cb;
	of_mod2dense *m;
	void *ctab[P], *vtab[Q];
	UINT8 bit[P][Q];
	UINT32 i, j, v, full_rank = 1;
	of_status_t ret;

	memset(&cb, 0, sizeof cb);
	cb.encoding_symbol_length = 1;
	cb.nb_total_symbols = P + Q;
	cb.tmp_tab_symbols = OFV_MALLOC(sizeof(void *) * (P + Q));
	REQUIRES(cb.tmp_tab_symbols != NULL);
	m = of_mod2dense_allocate(P, Q);
	REQUIRES(m != NULL);
	for (i = 0; i < P; i++)
		for (j = 0; j < Q; j++) {
#if OFV_MODE == 0
			IN_IJ(UINT8, in_bit, i, j);
			REQUIRES(in_bit[i][j] <= 1);
			bit[i][j] = in_bit[i][j];
#else
#if OFV_MODE == 1
			bit[i][j] = (j <= i) ? 1 : 0;	/* unit lower triangular, all ones below the diagonal, extra rows all ones: every elimination step XORs */
#else
			bit[i][j] = (i < Q) ? (j >= i) : 0;	/* unit upper triangular, all ones above the diagonal, extra rows zero: every back-substitution step adds */
#endif
#endif
			of_mod2dense_set(m, i, j, bit[i][j]);
		}
	for (j = 0; j < Q; j++) { IN_I(UINT8, in_x, j); vtab[j] = NULL; }
	for (i = 0; i < P; i++) {
		UINT8 c = 0, *s = OFV_MALLOC(1);
		REQUIRES(s != NULL);
		for (j = 0; j < Q; j++) if (bit[i][j]) c ^= in_x[j];
		*s = c;
		ctab[i] = s;
	}
#if OFV_MODE == 0
	for (v = 1; v < (1u << Q); v++) {	/* full column rank <==> no non-zero vector in the kernel */
		UINT32 in_kernel = 1;
		for (i = 0; i < P; i++) {
			UINT32 dot = 0;
			for (j = 0; j < Q; j++) dot ^= bit[i][j] & ((v >> j) & 1);
			if (dot) in_kernel = 0;
		}
		if (in_kernel) full_rank = 0;
	}
#endif
	ret = of_linear_binary_code_solve_dense_system(&cb, m, ctab, vtab);
	ENSURES((ret == OF_STATUS_OK) == (full_rank != 0), "solver.ok_iff_full_column_rank");
	ENSURES(ret == OF_STATUS_OK || ret == OF_STATUS_FAILURE, "solver.status_is_ok_or_failure");
	if (ret == OF_STATUS_OK)
		for (j = 0; j < Q; j++) {
			ENSURES(vtab[j] != NULL, "solver.solution_present");
			if (vtab[j] != NULL)
				ENSURES(*(UINT8 *)vtab[j] == in_x[j], "solver.returns_the_unique_solution");
		}
	REACHED("end");
	OFV_MAIN_RETURN;
}
