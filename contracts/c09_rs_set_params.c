/* C09 — contract of of_set_fec_parameters for the two Reed-Solomon codecs, enforced on the real dispatch function
 * of_set_fec_parameters (of_openfec_api.c) and the real of_rs_set_fec_parameters / of_rs_2_m_set_fec_parameters.
 *   OFV_CODEC 1: Reed-Solomon GF(2^8) (legacy)      2: Reed-Solomon GF(2^m)
 *
 *  requires  ses: a session just created by the real of_create_codec_instance for any role, optionally followed by one
 *            of_set_control_parameter call with arbitrary (type, 16-bit value) — the only calls the protocol allows before
 *            configuration; every field of the parameter structure is unconstrained (all 2^32 values each)
 *  ensures   ret == OF_STATUS_OK  <==>  in_limits(params)                            (set_params.accept_iff_in_limits)
 *              in_limits = 1 <= k <= MAX_K  and  n-k >= 1  and  k + (n-k) <= MAX_N without 32-bit wrap  and  length >= 1
 *                          (and m in {4,8} for codec 2), MAX_K = MAX_N = 255 resp. 2^m - 1
 *            ret == OK ==> OF_CTRL_GET_MAX_K / MAX_N report those limits             (set_params.limits_reported)
 *            ret == OK ==> valid configured session: k, n-k, n, length stored, availability table of n NULL entries,
 *                          counters zero, decoding not finished                      (set_params.session_valid.*)
 *  This "valid configured session" predicate is the precondition of the encode/decode contracts (C06/C10/C11).
 */
#include "ofv.h"
#include "of_openfec_api.h"
#if OFV_CODEC == 1
#include "lib_stable/reed-solomon_gf_2_8/of_reed-solomon_gf_2_8_includes.h"
typedef of_rs_cb_t cb_t;
typedef of_rs_parameters_t par_t;
#define CODEC_ID OF_CODEC_REED_SOLOMON_GF_2_8_STABLE
#else
#include "lib_stable/reed-solomon_gf_2_m/of_reed-solomon_gf_2_m_includes.h"
typedef of_rs_2_m_cb_t cb_t;
typedef of_rs_2_m_parameters_t par_t;
#define CODEC_ID OF_CODEC_REED_SOLOMON_GF_2_M_STABLE
#endif

UINT32 in_k, in_r, in_len, in_m, in_role, in_pre_ctrl, in_ctrl_type, in_ctrl_val, g_i;

int main(void)
{
	of_session_t *ses = NULL;
	par_t p;
	of_status_t ret;
	UINT32 max_k, max_n;
	int in_limits;

	IN(UINT32, in_k); IN(UINT32, in_r); IN(UINT32, in_len); IN(UINT32, in_m); IN(UINT32, in_role);
	IN(UINT32, in_pre_ctrl); IN(UINT32, in_ctrl_type); IN(UINT32, in_ctrl_val); IN(UINT32, g_i);
	REQUIRES(in_role == OF_ENCODER || in_role == OF_DECODER || in_role == OF_ENCODER_AND_DECODER);
	REQUIRES(in_m <= 0xFFFF && in_ctrl_val <= 0xFFFF && in_pre_ctrl <= 1);
	REQUIRES(of_create_codec_instance(&ses, CODEC_ID, (of_codec_type_t)in_role, 0) == OF_STATUS_OK && ses != NULL);
	if (in_pre_ctrl) {
		UINT16 v = (UINT16)in_ctrl_val;
		(void)of_set_control_parameter(ses, in_ctrl_type, &v, sizeof v);
	}
	memset(&p, 0, sizeof p);
	p.nb_source_symbols = in_k;
	p.nb_repair_symbols = in_r;
	p.encoding_symbol_length = in_len;
#if OFV_CODEC == 2
	p.m = (UINT16)in_m;
	max_k = max_n = (1u << (in_m & 15)) - 1;
	in_limits = (in_m == 4 || in_m == 8);
#else
	max_k = max_n = 255;
	in_limits = 1;
#endif
	in_limits = in_limits && in_k >= 1 && in_k <= max_k && in_r >= 1 && in_r <= max_n && in_k + in_r <= max_n && in_len >= 1;

#if OFV_CODEC == 2
	{
		/* KNOWN FINDING region (known_findings.txt): n = k + (n-k) above 2^m-1 is accepted (the pinned test suite itself
		 * configures m=4 with n=24). OFV_REGION 0: everything outside the region; 1: the region only (witness job). */
		int region = (in_m == 4 || in_m == 8) && in_k >= 1 && in_k <= max_k && in_r >= 1 && in_len >= 1
			     && in_r <= 0xFFFFFFFFu - in_k && in_k + in_r > max_n;
#if OFV_REGION == 1
		REQUIRES(region);
#else
		REQUIRES(!region);
#endif
	}
#endif
	ret = of_set_fec_parameters(ses, (of_parameters_t *)&p);

	ENSURES((ret == OF_STATUS_OK) == (in_limits != 0), "set_params.accept_iff_in_limits");
	if (ret == OF_STATUS_OK) {
		cb_t *cb = (cb_t *)ses;
		UINT32 qk = 0, qn = 0;
		ENSURES(of_get_control_parameter(ses, OF_CTRL_GET_MAX_K, &qk, sizeof qk) == OF_STATUS_OK && qk == max_k, "set_params.limits_reported.max_k");
		ENSURES(of_get_control_parameter(ses, OF_CTRL_GET_MAX_N, &qn, sizeof qn) == OF_STATUS_OK && qn == max_n, "set_params.limits_reported.max_n");
		REQUIRES(in_r <= 0xFFFFFFFFu - in_k);	/* (a wrapped n is itself reported by accept_iff_in_limits) */
		ENSURES(cb->nb_source_symbols == in_k && cb->nb_repair_symbols == in_r && cb->nb_encoding_symbols == in_k + in_r
			&& cb->encoding_symbol_length == in_len, "set_params.session_valid.dimensions");
		ENSURES(cb->codec_type == in_role && cb->codec_id == CODEC_ID, "set_params.session_valid.identity");
		ENSURES(cb->available_symbols_tab != NULL, "set_params.session_valid.table_allocated");
		REQUIRES(g_i < in_k + in_r);
		if (cb->available_symbols_tab != NULL)
			ENSURES(cb->available_symbols_tab[g_i] == NULL, "set_params.session_valid.table_empty");
		ENSURES(cb->nb_available_symbols == 0 && cb->nb_available_source_symbols == 0 && !cb->decoding_finished,
			"set_params.session_valid.counters_zero");
#if OFV_CODEC == 2
		ENSURES(cb->m == in_m && cb->field_size == max_n, "set_params.session_valid.field");
#endif
	}
	REACHED("after_call");
	OFV_MAIN_RETURN;
}
