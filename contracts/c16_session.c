/* C16 (decoder half, BOUNDED) — whole-session contract of the 2D parity codec on a tiny configuration, real code throughout:
 * real of_create_codec_instance / of_set_fec_parameters (real matrix construction), real encoder, real generic IT/ML decoders
 * reached through the 2D codec's cast, real release.
 *   constants  (k, n-k) = (OFV_K, OFV_R), symbol length 1; the received set OFV_MASK and the submission API / order OFV_API
 *              (0: of_decode_with_new_symbol in increasing ESI order, 1: decreasing order, 2: of_set_available_symbols)
 *   symbolic   all source data
 *   ensures    every source symbol the decoder makes available equals the encoded one                     (2d.decode.sound)
 *              if the parity checks determine every missing symbol uniquely (full column rank of H restricted to the missing
 *              columns, computed here by elimination) then after of_finish_decoding all k sources are available, the status is
 *              OF_STATUS_OK and of_is_decoding_complete is true; in particular any single loss              (2d.decode.complete)
 *              of_is_decoding_complete true ==> all k sources available                                     (2d.decode.complete_means_all)
 *              after the application has freed the decoded source symbols and of_release_codec_instance has run, nothing is
 *              left allocated (cbmc --memory-leak-check), no freed memory is touched (pointer checks)
 */
#include "ofv.h"
#include "of_openfec_api.h"
#include "lib_stable/2d_parity_matrix/of_2d_parity_includes.h"
#define K OFV_K
#define RR OFV_R
#define NN (K + RR)
UINT8 in_src[K];

/* contract stub of of_create_2D_pchk_matrix (goto-instrument --replace-calls): its own contract (C16 create job) says it returns
 * the (a+b) x (a*b+a+b) matrix filled by of_fill_2D_pchk_matrix for a factorisation of (k, n-k); here: real allocate + real fill.
 * (The real function searches the factorisation with float sqrt/floor, which alone costs minutes per run in CBMC.) */
of_mod2sparse *stub_create_2D(UINT32 nb_rows, UINT32 nb_cols, of_session_type type, UINT8 verbosity)
{
	of_mod2sparse *m;
	if (nb_rows != RR || nb_cols != NN)
		return NULL;
	m = of_mod2sparse_allocate(OFV_A + OFV_B, OFV_A * OFV_B + OFV_A + OFV_B);
	of_fill_2D_pchk_matrix(m, OFV_A, OFV_B, verbosity);
	return m;
}

static int rank_full(UINT32 missing_mask, UINT32 a, UINT32 b)
{
	/* H is RR x NN: row r < a: repair column... matrix column c: c < RR is repair c (its own check), c >= RR is source c-RR */
	UINT8 M[RR][NN];
	UINT32 r, c, cols[NN], nc = 0, rank = 0, i;
	for (r = 0; r < RR; r++)
		for (c = 0; c < NN; c++) {
			UINT32 s;
			if (c < RR) M[r][c] = (c == r);
			else { s = c - RR; M[r][c] = (r < a) ? (s / b == r) : (s % b == r - a); }
		}
	for (c = 0; c < NN; c++) {
		UINT32 esi = (c < RR) ? c + K : c - RR;
		if ((missing_mask >> esi) & 1) cols[nc++] = c;
	}
	for (i = 0; i < nc; i++) {		/* elimination on the missing columns */
		UINT32 p = 99;
		for (r = rank; r < RR; r++) if (M[r][cols[i]]) { p = r; break; }
		if (p == 99) return 0;
		for (c = 0; c < NN; c++) { UINT8 t = M[rank][c]; M[rank][c] = M[p][c]; M[p][c] = t; }
		for (r = 0; r < RR; r++) if (r != rank && M[r][cols[i]]) for (c = 0; c < NN; c++) M[r][c] ^= M[rank][c];
		rank++;
	}
	return 1;
}

int main(void)
{
	of_session_t *enc = NULL, *dec = NULL;
	of_2d_parity_parameters_t p;
	UINT8 sym[NN][1];
	void *tab[NN], *rx[NN], *out[K];
	UINT32 i, a, b, fa = 0, fb = 0;
	of_status_t ret;
	int determined;

	for (i = 0; i < K; i++) { IN_I(UINT8, in_src, i); sym[i][0] = in_src[i]; }
	for (i = 0; i < NN; i++) tab[i] = sym[i];
	memset(&p, 0, sizeof p);
	p.nb_source_symbols = K; p.nb_repair_symbols = RR; p.encoding_symbol_length = 1;
	REQUIRES(of_create_codec_instance(&enc, OF_CODEC_2D_PARITY_MATRIX_STABLE, OF_ENCODER, 0) == OF_STATUS_OK);
	REQUIRES(of_set_fec_parameters(enc, (of_parameters_t *)&p) == OF_STATUS_OK);
	for (i = K; i < NN; i++)
		REQUIRES(of_build_repair_symbol(enc, tab, i) == OF_STATUS_OK);
	REQUIRES(of_release_codec_instance(enc) == OF_STATUS_OK);

	REQUIRES(of_create_codec_instance(&dec, OF_CODEC_2D_PARITY_MATRIX_STABLE, OF_DECODER, 0) == OF_STATUS_OK);
	REQUIRES(of_set_fec_parameters(dec, (of_parameters_t *)&p) == OF_STATUS_OK);
	for (i = 0; i < NN; i++) rx[i] = ((OFV_MASK >> i) & 1) ? (void *)sym[i] : NULL;
#if OFV_API == 0
	for (i = 0; i < NN; i++) if (rx[i]) (void)of_decode_with_new_symbol(dec, rx[i], i);
#elif OFV_API == 1
	for (i = NN; i > 0; i--) if (rx[i - 1]) (void)of_decode_with_new_symbol(dec, rx[i - 1], i - 1);
#else
	(void)of_set_available_symbols(dec, rx);
#endif
	ret = of_finish_decoding(dec);
	/* the factorisation the codec uses (a + b == n-k, a * b == k), as of_create_2D_pchk_matrix finds it (C16 create contract) */
	for (a = 1; a < RR; a++) if (a * (RR - a) == K && fa == 0) { fa = a; fb = RR - a; }
	{	/* the code is symmetric in (a,b) up to the order of the checks; the real matrix decides which is used: read it */
		of_2d_parity_cb_t *cb = (of_2d_parity_cb_t *)dec;
		b = 0;
		{ of_mod2entry *e; for (e = of_mod2sparse_first_in_row(cb->pchk_matrix, 0); !of_mod2sparse_at_end(e); e = of_mod2sparse_next_in_row(e)) b++; }
		b = b - 1; a = K / b;
	}
	determined = rank_full(((1u << NN) - 1) & ~(UINT32)OFV_MASK, a, b);
	if (of_is_decoding_complete(dec)) {
		REQUIRES(of_get_source_symbols_tab(dec, out) == OF_STATUS_OK);
		for (i = 0; i < K; i++) {
			ENSURES(out[i] != NULL, "2d.decode.complete_means_all");
			if (out[i] != NULL) ENSURES(*(UINT8 *)out[i] == in_src[i], "2d.decode.sound");
		}
	}
	if (determined) {
		ENSURES(ret == OF_STATUS_OK && of_is_decoding_complete(dec), "2d.decode.complete");
	}
	if (of_is_decoding_complete(dec) && of_get_source_symbols_tab(dec, out) == OF_STATUS_OK)
		for (i = 0; i < K; i++)
			if (out[i] != NULL && out[i] != (void *)sym[i]) free(out[i]);	/* decoded source symbols belong to the application */
	(void)of_release_codec_instance(dec);
	REACHED("released");
	OFV_MAIN_RETURN;
}
