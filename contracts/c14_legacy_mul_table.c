/* C14 — contract of of_rs_init_mul_table() (static, legacy RS codec), enforced on the real function:
 *   requires  exp/log tables with arbitrary contents such that 0 <= log[x] <= 255 for every x (what of_generate_gf
 *             establishes: proved in group legacy.generate_gf)
 *   ensures   for every cell (g_r, g_c) of the 256x256 table:
 *               of_gf_mul_table[g_r][g_c] == 0                                   if g_r == 0 or g_c == 0
 *               of_gf_mul_table[g_r][g_c] == exp[(log[g_r] + log[g_c]) mod 255]  otherwise
 *   The three filling loops are closed by the loop contracts of loops/of_rs_init_mul_table.json (no unwinding);
 *   of_modnn's width-bounded loop is unwound (its own contract is group index_reducers).
 *   Together with legacy.mul_formula (exp[modnn(log a + log b)] == a*b in the field) this makes every entry of the
 *   generated multiplication table the field product.
 */
#include "ofv.h"
#include "lib_stable/reed-solomon_gf_2_8/of_reed-solomon_gf_2_8.c"

UINT32 g_r, g_c;

int main(void)
{
	int x;
	IN(UINT32, g_r);
	IN(UINT32, g_c);
	REQUIRES(g_r < 256 && g_c < 256);
#ifdef OFV_NATIVE
	of_generate_gf();
#else
	__CPROVER_havoc_object(of_rs_gf_exp);
	__CPROVER_havoc_object(of_rs_gf_log);
	__CPROVER_havoc_object(of_gf_mul_table);
	for (x = 0; x < 256; x++)
		__CPROVER_assume(of_rs_gf_log[x] >= 0 && of_rs_gf_log[x] <= 255);
#endif
	of_rs_init_mul_table();
	if (g_r == 0 || g_c == 0)
		ENSURES(of_gf_mul_table[g_r][g_c] == 0, "legacy.mul_table.zero_row_col");
	else
		ENSURES(of_gf_mul_table[g_r][g_c] == of_rs_gf_exp[(of_rs_gf_log[g_r] + of_rs_gf_log[g_c]) % 255], "legacy.mul_table.cell");
	REACHED("end");
	OFV_MAIN_RETURN;
}
