/* C05 / C15 — contract of of_ldpc_staircase_set_fec_parameters + of_create_pchck_matrix_rfc5170_compliant on concrete parameter points.  BOUNDED.
 *
 *   real code    of_create_codec_instance, of_set_fec_parameters (real validation, REAL matrix construction, real PRNG of_rfc5170_srand/rand,
 *                real sparse matrix), of_get_control_parameter, and for OFV_T 2 the real encoder of_build_repair_symbol
 *   constants    (k, n-k, N1, seed) = (OFV_K, OFV_R, OFV_N1, OFV_SEED); the role OFV_ROLE (1 encoder, 2 decoder, 3 both)
 *   symbolic     the PRNG state before the call (of_seed: "after any history of other sessions"), OFV_T 2: all source data
 *
 * Specification function spec_rfc5170_matrix(k, n, N1, seed): the pseudo-code of RFC 5170, sections 5.7 (pmms_rand, Park-Miller minimal standard, written
 * here with 64-bit modular arithmetic: C19 proves the code's carry/fold form equal to it for every state), 4.2/6.2 left_matrix_init (the "u" table of
 * N1*k choices, the fallback when no choice remains, the extra bits for rows of degree < 2) and the staircase right side, on a dense bit array indexed
 * by (row, ESI) - a different data structure from the library's sparse matrix and a different column order (RFC: sources first; library: repairs first).
 *
 * OFV_T 1 (C05):
 *   matrix.is_the_rfc5170_matrix                 every row of the session's matrix holds exactly the ESIs of the RFC matrix (walked through the real
 *                                                row lists; column lists are cross-checked: matrix.column_lists_agree_with_rows)
 *   matrix.extra_flag_truthful                   extra_entries_added_in_pchk <=> the RFC procedure added at least one extra bit
 *   matrix.same_for_encoder_and_decoder          (OFV_ROLE 3) both sessions hold the same matrix (for a decoder with N1 even and no extra entry the
 *                                                library has already consumed the zero last repair symbol: entries may only be missing, and only in
 *                                                rows that held that symbol)
 *   prng.state_overwritten_by_seed               the construction does not depend on the prior PRNG state (of_seed symbolic before the call)
 * OFV_T 2 (C15):
 *   last_null.claim_is_truthful                  OF_CRTL_LDPC_STAIRCASE_IS_LAST_SYMBOL_NULL true ==> the last repair symbol built by the real encoder is
 *                                                all zeros, for all source data
 *   last_null.spec_says_so                       ... and the claim is true exactly when N1 is even and the RFC procedure added no extra bit
 *   last_null.encoder_and_decoder_agree          both roles report the same answer
 */
#include "ofv.h"
#include "of_openfec_api.h"
#include "lib_stable/ldpc_staircase/of_ldpc_includes.h"
#define K OFV_K
#define RR OFV_R
#define NN (K + RR)
#ifndef OFV_LEN
#define OFV_LEN 1
#endif
#define LEN OFV_LEN
extern UINT64 of_seed;
UINT64 in_prior_seed;
UINT8 in_src[K][LEN];

/* ---- RFC 5170 pseudo-code ---------------------------------------------------------------------------------------------------------------- */
static UINT64 spec_state;
static UINT32 spec_pmms_rand(UINT32 maxv)
{
	spec_state = (16807ull * spec_state) % 2147483647ull;
	return (UINT32)((double)spec_state * (double)maxv / (double)0x7FFFFFFF);
}
static UINT8 spec_H[RR][NN];		/* [row][esi]; RFC column j < k is source symbol j, column k + i is repair symbol i */
static UINT32 spec_added;
static int spec_row_degree(UINT32 i) { UINT32 j, d = 0; for (j = 0; j < K; j++) d += spec_H[i][j]; return (int)d; }
static void spec_rfc5170_matrix(UINT32 seed)
{
	static UINT32 u[OFV_N1 * K];
	INT32 i, j, h, t;
	for (i = 0; i < RR; i++) for (j = 0; j < NN; j++) spec_H[i][j] = 0;
	spec_state = seed;
	for (h = OFV_N1 * K - 1; h >= 0; h--) u[h] = (UINT32)h % RR;
	t = 0;
	for (j = 0; j < K; j++) {
		for (h = 0; h < OFV_N1; h++) {
			for (i = t; i < OFV_N1 * K && spec_H[u[i]][j]; i++) ;
			if (i < OFV_N1 * K) {
				do { i = t + (INT32)spec_pmms_rand((UINT32)(OFV_N1 * K - t)); } while (spec_H[u[i]][j]);
				spec_H[u[i]][j] = 1;
				u[i] = u[t];
				t++;
			} else {
				do { i = (INT32)spec_pmms_rand(RR); } while (spec_H[i][j]);
				spec_H[i][j] = 1;
			}
		}
	}
	spec_added = 0;
	for (i = 0; i < RR; i++) {
		if (spec_row_degree((UINT32)i) == 0) { j = (INT32)spec_pmms_rand(K); spec_H[i][j] = 1; spec_added++; }
		if (spec_row_degree((UINT32)i) == 1 && K > 1) {
			do { j = (INT32)spec_pmms_rand(K); } while (spec_H[i][j]);
			spec_H[i][j] = 1; spec_added++;
		}
	}
	spec_H[0][K] = 1;
	for (i = 1; i < RR; i++) { spec_H[i][K + i] = 1; spec_H[i][K + i - 1] = 1; }
}

static of_session_t *make_session(of_codec_type_t role)
{
	of_session_t *ses = NULL;
	of_ldpc_parameters_t p;
	of_status_t st;
	memset(&p, 0, sizeof p);
	p.nb_source_symbols = K; p.nb_repair_symbols = RR; p.encoding_symbol_length = LEN; p.prng_seed = OFV_SEED; p.N1 = OFV_N1;
	REQUIRES(of_create_codec_instance(&ses, OF_CODEC_LDPC_STAIRCASE_STABLE, role, 0) == OF_STATUS_OK && ses != NULL);
	of_seed = in_prior_seed;		/* whatever other sessions left in the process-wide PRNG */
	st = of_set_fec_parameters(ses, (of_parameters_t *)&p);
#ifdef OFV_MAY_REJECT	/* a parameter point outside the advertised limits (N1 > n-k): rejection is C09's subject; if it is accepted the claim must still be truthful */
	if (st != OF_STATUS_OK) return NULL;
#endif
	ENSURES(st == OF_STATUS_OK, "set_params.accepts");
	REQUIRES(st == OF_STATUS_OK);
	return ses;
}

static void check_matrix(of_session_t *ses, int injected)
{
	of_ldpc_staircase_cb_t *cb = (of_ldpc_staircase_cb_t *)ses;
	UINT32 r, e, c;
	for (r = 0; r < RR; r++) {
		UINT8 row[NN];
		of_mod2entry *en;
		for (e = 0; e < NN; e++) row[e] = 0;
		for (en = of_mod2sparse_first_in_row(cb->pchk_matrix, r); !of_mod2sparse_at_end(en); en = of_mod2sparse_next_in_row(en)) {
			ENSURES(en->row == (INT32)r && en->col >= 0 && en->col < NN, "matrix.entry_in_range");
			row[of_get_symbol_esi(cb, (UINT32)en->col)] = 1;
		}
		for (e = 0; e < NN; e++) {
			if (injected && spec_H[r][NN - 1])	/* a row that held the consumed zero symbol: entries may have been moved into its partial sum */
				ENSURES(!row[e] || spec_H[r][e], "matrix.is_the_rfc5170_matrix");
			else
				ENSURES(row[e] == spec_H[r][e], "matrix.is_the_rfc5170_matrix");
		}
	}
	for (c = 0; c < NN; c++) {
		of_mod2entry *en;
		UINT32 esi = (UINT32)of_get_symbol_esi(cb, c), w = 0, want = 0;
		for (en = of_mod2sparse_first_in_col(cb->pchk_matrix, c); !of_mod2sparse_at_end(en); en = of_mod2sparse_next_in_col(en)) {
			ENSURES(en->col == (INT32)c && en->row >= 0 && en->row < RR && spec_H[en->row][esi], "matrix.column_lists_agree_with_rows");
			w++;
		}
		for (r = 0; r < RR; r++) want += spec_H[r][esi];
		if (!injected) ENSURES(w == want, "matrix.column_lists_agree_with_rows");
	}
	ENSURES((cb->extra_entries_added_in_pchk != 0) == (spec_added != 0), "matrix.extra_flag_truthful");
}

int main(void)
{
	of_session_t *enc = NULL, *dec = NULL;
	UINT32 i, b;
	int spec_null;
	IN(UINT64, in_prior_seed);
#ifndef OFV_MAY_REJECT	/* (outside the limits, N1 > n-k, the RFC procedure itself does not terminate: no specification matrix there) */
	spec_rfc5170_matrix(OFV_SEED);
#endif
	spec_null = ((OFV_N1 & 1) == 0) && spec_added == 0;
#if OFV_T == 1
#if OFV_ROLE & 1
	enc = make_session(OF_ENCODER);
	check_matrix(enc, 0);
#endif
#if OFV_ROLE & 2
	dec = make_session(OF_DECODER);
	check_matrix(dec, spec_null);
#endif
	REACHED("end");
#else
	{
		bool claim_e = false, claim_d = false;
		void *tab[NN];
		UINT8 bufs[NN][LEN];
		enc = make_session(OF_ENCODER);
		dec = make_session(OF_DECODER);
#ifdef OFV_MAY_REJECT
		if (enc == NULL || dec == NULL) goto done;	/* rejected: nothing is claimed */
#endif
		REQUIRES(of_get_control_parameter(enc, OF_CRTL_LDPC_STAIRCASE_IS_LAST_SYMBOL_NULL, &claim_e, sizeof claim_e) == OF_STATUS_OK);
		REQUIRES(of_get_control_parameter(dec, OF_CRTL_LDPC_STAIRCASE_IS_LAST_SYMBOL_NULL, &claim_d, sizeof claim_d) == OF_STATUS_OK);
		ENSURES((claim_e != 0) == (claim_d != 0), "last_null.encoder_and_decoder_agree");
#ifndef OFV_MAY_REJECT
		ENSURES((claim_e != 0) == (spec_null != 0), "last_null.spec_says_so");
#endif
		for (i = 0; i < NN; i++) {
			for (b = 0; b < LEN; b++) { if (i < K) { IN_IJ(UINT8, in_src, i, b); bufs[i][b] = in_src[i][b]; } else bufs[i][b] = 0xA5; }
			tab[i] = bufs[i];
		}
		for (i = K; i < NN; i++) REQUIRES(of_build_repair_symbol(enc, tab, i) == OF_STATUS_OK);
		if (claim_e || claim_d)
			for (b = 0; b < LEN; b++) ENSURES(bufs[NN - 1][b] == 0, "last_null.claim_is_truthful");
done:
		REACHED("end");
	}
#endif
	OFV_MAIN_RETURN;
}
