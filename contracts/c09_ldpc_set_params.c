/* C09 — LDPC-Staircase of_set_fec_parameters, REJECT direction, enforced on the real dispatch function and the real
 * of_ldpc_staircase_set_fec_parameters with every field of the parameter structure unconstrained.
 *   The matrix construction of_create_pchck_matrix_rfc5170_compliant is replaced (goto-instrument --replace-calls) by a stub
 *   that CHECKS the construction's precondition — what validation must have established before calling it:
 *       n-k >= 1, k = n - (n-k) >= 1, n <= MAX_N, N1 >= 3, 1 <= seed <= 2^31-2          (construct.called_within_limits)
 *   and returns NULL (so nothing after the call runs). The construction's own check "N1 > n-k => NULL" has its own contract
 *   (OFV_T 2, real function, loop-free path).
 *   ensures   every configuration outside the advertised limits is rejected with an error status, the construction is never
 *             entered with it, and a zero symbol length is rejected                                (set_params.rejects_*)
 * The ACCEPT direction (in limits => OK and a usable session) needs the real construction, which does not terminate inside
 * CBMC even for one tiny concrete instance (probed): not decided here.
 */
#include "ofv.h"
#include "of_openfec_api.h"
#include "lib_stable/ldpc_staircase/of_ldpc_includes.h"
#include "of_rand.h"
extern UINT64 of_seed;

UINT32 in_k, in_r, in_len, in_seed, in_n1, in_role;
static UINT32 construct_calls, construct_pre_violations;

of_mod2sparse *stub_create_pchk(UINT32 nb_rows, UINT32 nb_cols, UINT32 left_degree, UINT32 seed, of_ldpc_staircase_cb_t *ofcb)
{
	construct_calls++;
	if (!(nb_rows >= 1 && nb_cols > nb_rows && nb_cols <= OF_LDPC_STAIRCASE_MAX_NB_ENCODING_SYMBOLS_DEFAULT
	      && nb_cols - nb_rows <= OF_LDPC_STAIRCASE_MAX_NB_SOURCE_SYMBOLS_DEFAULT
	      && left_degree >= 3 && seed >= 1 && seed <= 0x7FFFFFFEu && ofcb != NULL && ofcb->encoding_symbol_length >= 1))
		construct_pre_violations++;
	return NULL;
}

int main(void)
{
#if OFV_T == 2
	/* contract of the construction's first check: N1 > n-k  ==>  NULL, before anything is allocated or seeded */
	of_ldpc_staircase_cb_t cb;
	UINT64 seed_before;
	static const UINT32 grid[][3] = { {1, 3, 10}, {2, 3, 7}, {4, 5, 4}, {254, 255, 1000}, {3, 4, 1}, {100, 255, 49900} };	/* (n-k, N1, k) with N1 > n-k */
	UINT32 g;
	of_seed = seed_before = 12345;
	memset(&cb, 0, sizeof cb);
	/* (constants: with symbolic arguments CBMC unwinds the construction loops behind the early return and runs out of memory) */
	for (g = 0; g < sizeof grid / sizeof grid[0]; g++)
		ENSURES(of_create_pchck_matrix_rfc5170_compliant(grid[g][0], grid[g][2] + grid[g][0], grid[g][1], 1, &cb) == NULL, "construct.rejects_N1_above_n_minus_k");
	ENSURES(of_seed == seed_before, "construct.reject_leaves_prng_alone");
#else
	of_session_t *ses = NULL;
	of_ldpc_parameters_t p;
	of_status_t ret;
	int in_limits;
	IN(UINT32, in_k); IN(UINT32, in_r); IN(UINT32, in_len); IN(UINT32, in_seed); IN(UINT32, in_n1); IN(UINT32, in_role);
	REQUIRES(in_role == OF_ENCODER || in_role == OF_DECODER || in_role == OF_ENCODER_AND_DECODER);
	REQUIRES(in_n1 <= 255);
	REQUIRES(of_create_codec_instance(&ses, OF_CODEC_LDPC_STAIRCASE_STABLE, (of_codec_type_t)in_role, 0) == OF_STATUS_OK && ses != NULL);
	memset(&p, 0, sizeof p);
	p.nb_source_symbols = in_k; p.nb_repair_symbols = in_r; p.encoding_symbol_length = in_len;
	p.prng_seed = (INT32)in_seed; p.N1 = (UINT8)in_n1;
	in_limits = in_k >= 1 && in_k <= OF_LDPC_STAIRCASE_MAX_NB_SOURCE_SYMBOLS_DEFAULT && in_r >= 1
		    && in_r <= OF_LDPC_STAIRCASE_MAX_NB_ENCODING_SYMBOLS_DEFAULT && in_k + in_r <= OF_LDPC_STAIRCASE_MAX_NB_ENCODING_SYMBOLS_DEFAULT
		    && in_len >= 1 && in_n1 >= 3 && in_n1 <= in_r && in_seed >= 1 && in_seed <= 0x7FFFFFFEu;
	ret = of_set_fec_parameters(ses, (of_parameters_t *)&p);
	ENSURES(construct_pre_violations == 0, "construct.called_within_limits");
	if (!in_limits)
		ENSURES(ret != OF_STATUS_OK, "set_params.rejects_out_of_limits");
	{
		UINT32 qk = 0, qn = 0;
		ENSURES(of_get_control_parameter(ses, OF_CTRL_GET_MAX_K, &qk, sizeof qk) == OF_STATUS_OK && qk == OF_LDPC_STAIRCASE_MAX_NB_SOURCE_SYMBOLS_DEFAULT, "set_params.limits_reported.max_k");
		ENSURES(of_get_control_parameter(ses, OF_CTRL_GET_MAX_N, &qn, sizeof qn) == OF_STATUS_OK && qn == OF_LDPC_STAIRCASE_MAX_NB_ENCODING_SYMBOLS_DEFAULT, "set_params.limits_reported.max_n");
	}
#endif
	REACHED("end");
	OFV_MAIN_RETURN;
}
