/* spec_gf.h — GF(2^m) arithmetic written from the property statement (C14/C06), not from the code:
 * polynomial basis, reduction modulo the primitive polynomial, generator x.
 *   GF(2^4): x^4+x+1           = 0x13
 *   GF(2^8): x^8+x^4+x^3+x^2+1 = 0x11d
 */
#ifndef SPEC_GF_H
#define SPEC_GF_H
#define SPEC_POLY_4 0x13u
#define SPEC_POLY_8 0x11du

/* carry-less multiplication of a and b reduced modulo poly (degree m), shift-and-reduce */
static unsigned spec_gf_mul(unsigned a, unsigned b, unsigned poly, unsigned m)
{
	unsigned r = 0, i;
	for (i = 0; i < m; i++) {
		if (b & 1u)
			r ^= a;
		b >>= 1;
		a <<= 1;
		if (a & (1u << m))
			a ^= poly;
	}
	return r;
}
#define spec_mul4(a, b) spec_gf_mul((a), (b), SPEC_POLY_4, 4)
#define spec_mul8(a, b) spec_gf_mul((a), (b), SPEC_POLY_8, 8)
#endif
