/* C03 / C04 (+ the LDPC-Staircase and 2D-parity halves of C01, C07, C08, C10, C11, C16) — session contract of the generic
 * linear-binary-code decoding engines (iterative peeling of_linear_binary_code_decode_with_new_symbol, ML of_..._finish_decoding_with_ml,
 * dense solver) reached through the PUBLIC API of an LDPC-Staircase (OFV_CODEC 3) or 2D-parity (OFV_CODEC 5) decoder session.  BOUNDED.
 *
 *   real code    of_create_codec_instance, of_set_fec_parameters (table initialisation, zero-symbol injection when N1 is even),
 *                of_set_callback_functions, of_decode_with_new_symbol / of_set_available_symbols, of_is_decoding_complete,
 *                of_get_source_symbols_tab, of_finish_decoding, of_release_codec_instance and everything below them
 *                (IT engine, ML simplification, sparse->dense conversion, dense solver, symbol kernels, sparse matrix).
 *   replaced     the matrix construction only (goto-instrument --replace-calls): LDPC: stub_create_ldpc builds, through the real
 *                of_mod2sparse_insert, the matrix whose rows are the constants OFV_ROWS (matrices the real construction returns for small
 *                (k, n-k, N1, seed), see checks/lbc.py; what the construction returns is C05's business) and sets
 *                extra_entries_added_in_pchk as the real one did; 2D: real of_mod2sparse_allocate + real of_fill_2D_pchk_matrix (C16's
 *                fill contract) for the factorisation (OFV_A, OFV_B) (C16's factorisation contract).
 *                libc rand() (order in which ML injects repair symbols): a constant sequence OFV_RAND per run.
 *   constants    the matrix, the history (OFV_SEQ: ESIs in arrival order, repetitions allowed; OFV_API 0: one of_decode_with_new_symbol per
 *                element, 2: one of_set_available_symbols with that set), OFV_FINISH (call of_finish_decoding), OFV_CB (0 no callback,
 *                1 source callback returning a fresh buffer, 2 returning NULL, 3 alternating; +4: repair callback registered too),
 *                OFV_RELEASE (release the session at the end and free the application-owned decoded sources)
 *   symbolic     all source data (OFV_LEN bytes per symbol); the codeword is "the unique values that make every equation sum to zero" (C06)
 *
 * Specification functions (written from the property statements, on bit masks over ESIs):
 *   spec_peel(H, received)      the iterative-erasure closure: repeat { an equation with exactly one unknown symbol releases it }
 *   spec_full_rank(H, unknown)  the columns of H indexed by `unknown` are linearly independent over GF(2), i.e. the unknown symbols are
 *                               uniquely determined by the equations (elimination on row masks)
 *
 * Contract clauses (names are the obligations reported):
 *   after every of_decode_with_new_symbol (every prefix of the history):
 *     decode.returns_ok                                   status is OF_STATUS_OK                                                     (C10)
 *     stream.available_iff_in_peeling_closure             source i available <=> i in spec_peel(H, received so far)                  (C04)
 *     stream.complete_iff_closure_has_all_sources         of_is_decoding_complete <=> closure contains all k sources                 (C04, C10)
 *     complete.never_reverts                              once true, stays true                                                      (C10)
 *     sound.available_source_is_the_encoded_one           every available source symbol is byte-identical to the encoded one         (C01)
 *     pointer.submitted_while_unknown_is_kept             a source submitted while unknown is reported by the very pointer supplied  (C10)
 *     inv.every_equation_stays_true                       for every row that still has entries: partial sum (+) remaining entries' true values == 0
 *     inv.counters_match_matrix                           for those rows, until completion: entry / unknown counters agree with the matrix and the known set
 *   after of_finish_decoding:
 *     finish.recovers_all_iff_uniquely_determined         all k sources available <=> spec_full_rank(H, not received)                (C03)
 *     finish.incomplete_otherwise                         not determined => of_is_decoding_complete false, available set unchanged   (C03)
 *     finish.ok_iff_complete_afterwards / finish.failure_iff_incomplete_afterwards                                                   (C10)
 *   at the end:
 *     callback.exactly_once_per_decoded_source_never_for_received, callback.size_and_esi, callback.buffer_is_reported_and_holds_value (C11)
 *     frame.received_symbols_never_written                                                                                           (C07)
 *     release: of_release_codec_instance returns OK; cbmc --memory-leak-check / pointer checks: nothing left, nothing freed twice    (C08)
 */
#include "ofv.h"
#include "of_openfec_api.h"
#if OFV_CODEC == 3
#include "lib_stable/ldpc_staircase/of_ldpc_includes.h"
typedef of_ldpc_staircase_cb_t cb_t;
#define CODEC_ID OF_CODEC_LDPC_STAIRCASE_STABLE
#else
#include "lib_stable/2d_parity_matrix/of_2d_parity_includes.h"
typedef of_2d_parity_cb_t cb_t;
#define CODEC_ID OF_CODEC_2D_PARITY_MATRIX_STABLE
#endif
#define K OFV_K
#define RR OFV_R
#define NN (K + RR)
#define LEN OFV_LEN
#ifndef OFV_CB
#define OFV_CB 0
#endif
#ifndef OFV_RAND
#define OFV_RAND {0}
#endif
#ifndef OFV_FINISH
#define OFV_FINISH 0
#endif
#ifndef OFV_RELEASE
#define OFV_RELEASE 1
#endif
#ifndef OFV_API
#define OFV_API 0
#endif
/* the 2D codec's bulk API only stores private copies of the supplied symbols; all decoding happens in of_finish_decoding (C16 speaks about the
 * outcome after finish only; the peeling-closure and pointer-identity clauses are LDPC-Staircase clauses: C04, C10) */
#define LAZY_BULK (OFV_CODEC == 5 && OFV_API == 2)

UINT8 in_src[K][LEN];

/* TRUSTED: libc rand() (the order in which ML decoding injects the known repair symbols) is a constant sequence chosen per run */
static const int rand_seq[] = OFV_RAND;
static unsigned rand_calls;
int rand(void) { int v = rand_seq[rand_calls % (sizeof rand_seq / sizeof rand_seq[0])]; rand_calls++; return v; }

static const UINT32 seq[] = OFV_SEQ;
#ifdef OFV_EMPTY_HISTORY
#define NSEQ 0
#else
#define NSEQ (sizeof seq / sizeof seq[0])
#endif

#if OFV_CODEC == 3
static const UINT32 rows_const[RR] = OFV_ROWS;	/* bit c of rows_const[r] <=> H[r][c]; matrix columns: 0..RR-1 repair, RR.. source */
/* contract stub of of_create_pchck_matrix_rfc5170_compliant */
static UINT32 create_bad_args;
of_mod2sparse *stub_create_ldpc(UINT32 nb_rows, UINT32 nb_cols, UINT32 left_degree, UINT32 seed, of_ldpc_staircase_cb_t *ofcb)
{
	of_mod2sparse *m;
	UINT32 r, c;
	if (nb_rows != RR || nb_cols != NN || left_degree != OFV_N1 || seed != OFV_SEED || ofcb == NULL) { create_bad_args++; return NULL; }
	m = of_mod2sparse_allocate(RR, NN);
	for (r = 0; r < RR; r++)
		for (c = 0; c < NN; c++)
			if ((rows_const[r] >> c) & 1u) of_mod2sparse_insert(m, r, c);
	ofcb->extra_entries_added_in_pchk = OFV_EXTRA;
	return m;
}
#ifdef OFV_NATIVE
of_mod2sparse *__wrap_of_create_pchck_matrix_rfc5170_compliant(UINT32 a, UINT32 b, UINT32 c, UINT32 d, of_ldpc_staircase_cb_t *e) { return stub_create_ldpc(a, b, c, d, e); }
#endif
#else
/* contract stub of of_create_2D_pchk_matrix: real allocate + real fill for the factorisation (OFV_A, OFV_B) of (k, n-k) */
static UINT32 create_bad_args;
of_mod2sparse *stub_create_2D(UINT32 nb_rows, UINT32 nb_cols, of_session_type type, UINT8 verbosity)
{
	of_mod2sparse *m;
	if (nb_rows != RR || nb_cols != NN) { create_bad_args++; return NULL; }
	m = of_mod2sparse_allocate(OFV_A + OFV_B, OFV_A * OFV_B + OFV_A + OFV_B);
	of_fill_2D_pchk_matrix(m, OFV_A, OFV_B, verbosity);
	return m;
}
#ifdef OFV_NATIVE
of_mod2sparse *__wrap_of_create_2D_pchk_matrix(UINT32 a, UINT32 b, of_session_type c, UINT8 d) { return stub_create_2D(a, b, c, d); }
#endif
#endif

/* ---- specification functions, on masks over ESIs (bit e <=> encoding symbol e) ------------------------------------------------- */
static UINT32 H[RR];		/* row masks in ESI space */
#define ALL_SRC ((1u << K) - 1u)
static UINT32 col2esi(UINT32 c) { return (c < RR) ? c + K : c - RR; }
static UINT32 popcnt(UINT32 x) { UINT32 n = 0; while (x) { n += x & 1u; x >>= 1; } return n; }

static UINT32 spec_peel(UINT32 known)
{
	UINT32 it, r;
	for (it = 0; it < NN; it++)
		for (r = 0; r < RR; r++) {
			UINT32 u = H[r] & ~known;
			if (u != 0 && (u & (u - 1)) == 0) known |= u;
		}
	return known;
}

static int spec_full_rank(UINT32 unknown)
{
	UINT32 M[RR], r, e, rank = 0;
	for (r = 0; r < RR; r++) M[r] = H[r] & unknown;
	for (e = 0; e < NN; e++) {
		UINT32 p = RR;
		if (!((unknown >> e) & 1u)) continue;
		for (r = rank; r < RR; r++) if ((M[r] >> e) & 1u) { p = r; break; }
		if (p == RR) return 0;		/* no pivot for this unknown: not uniquely determined */
		{ UINT32 t = M[rank]; M[rank] = M[p]; M[p] = t; }
		for (r = 0; r < RR; r++) if (r != rank && ((M[r] >> e) & 1u)) M[r] ^= M[rank];
		rank++;
	}
	return 1;
}

/* ---- application side ----------------------------------------------------------------------------------------------------------- */
static UINT32 cb_src_calls[K], cb_src_bad, cb_rep_calls, cb_rep_bad;
static void *cb_src_buf[K];
static int ctx_token;
void *app_src_cb(void *context, UINT32 size, UINT32 esi)
{
	if (context != (void *)&ctx_token || size != LEN || esi >= K) { cb_src_bad++; return NULL; }
	cb_src_calls[esi]++;
#if (OFV_CB & 3) == 1
	cb_src_buf[esi] = OFV_MALLOC(LEN);
#elif (OFV_CB & 3) == 2
	cb_src_buf[esi] = NULL;
#else
	cb_src_buf[esi] = (esi & 1u) ? OFV_MALLOC(LEN) : NULL;
#endif
	return cb_src_buf[esi];
}
void *app_rep_cb(void *context, UINT32 size, UINT32 esi)
{
	if (context != (void *)&ctx_token || size != LEN || esi < K || esi >= NN) cb_rep_bad++;
	cb_rep_calls++;
	return NULL;	/* "let the library allocate" */
}

/* which sources the library had to decode: a source that enters the closure at an arrival other than its own (or at finish) */
static UINT32 spec_decoded;
static void spec_note_arrival(UINT32 received_before, UINT32 esi)
{
	UINT32 before = spec_peel(received_before), after = spec_peel(received_before | (1u << esi));
	spec_decoded |= after & ~before & ~(1u << esi) & ALL_SRC;
}

static UINT8 sym[NN][LEN];	/* the codeword, by ESI */
static UINT8 rx[NN][LEN], rx2[NN][LEN];	/* what the application received (second copy: a duplicate arrives in another buffer) */

static void check_engine_invariants(of_linear_binary_code_cb_t *g, int complete)
{
	UINT32 r, b, known = 0, e;
	if (g->pchk_matrix == NULL) return;
	for (e = 0; e < NN; e++) if (g->encoding_symbols_tab[e] != NULL) known |= 1u << e;
	for (r = 0; r < RR; r++) {
		UINT8 acc[LEN];
		UINT32 n_entries = 0;
		of_mod2entry *en;
		for (b = 0; b < LEN; b++) acc[b] = g->tab_const_term_of_equ[r] ? ((UINT8 *)g->tab_const_term_of_equ[r])[b] : 0;
		for (en = of_mod2sparse_first_in_row(g->pchk_matrix, r); !of_mod2sparse_at_end(en); en = of_mod2sparse_next_in_row(en)) {
			n_entries++;
			for (b = 0; b < LEN; b++) acc[b] ^= sym[col2esi(en->col)][b];
		}
		if (n_entries == 0) continue;	/* a consumed equation: its partial sum and counters are no longer maintained (nor read) */
		for (b = 0; b < LEN; b++) ENSURES(acc[b] == 0, "inv.every_equation_stays_true");
		if (!complete) {
			ENSURES(g->tab_nb_enc_symbols_per_equ[r] == n_entries, "inv.counters_match_matrix");
			ENSURES(g->tab_nb_unknown_symbols[r] == popcnt(H[r] & ~known), "inv.counters_match_matrix");
		}
	}
}

int main(void)
{
	of_session_t *ses = NULL;
	void *out[K], *first_ptr[K];
	UINT32 i, b, r, c, received = 0, avail, closure, submitted_unknown = 0;
	of_status_t st;
	int was_complete = 0, complete;

	/* ---- session ---------------------------------------------------------------------------------------------------------------- */
	REQUIRES(of_create_codec_instance(&ses, CODEC_ID, OF_DECODER, 0) == OF_STATUS_OK && ses != NULL);
	{
#if OFV_CODEC == 3
		of_ldpc_parameters_t p; memset(&p, 0, sizeof p);
		p.prng_seed = OFV_SEED; p.N1 = OFV_N1;
#else
		of_2d_parity_parameters_t p; memset(&p, 0, sizeof p);
#endif
		p.nb_source_symbols = K; p.nb_repair_symbols = RR; p.encoding_symbol_length = LEN;
#if OFV_CODEC == 3
		for (r = 0; r < RR; r++) { H[r] = 0; for (c = 0; c < NN; c++) if ((rows_const[r] >> c) & 1u) H[r] |= 1u << col2esi(c); }
#endif
		st = of_set_fec_parameters(ses, (of_parameters_t *)&p);
		ENSURES(st == OF_STATUS_OK && create_bad_args == 0, "set_params.accepts_and_builds_with_k_n_N1_seed");
		REQUIRES(st == OF_STATUS_OK);
#if OFV_CODEC != 3
		{	/* the 2D matrix as the real fill produced it (its shape is C16's fill contract) */
			of_mod2entry *en;
			for (r = 0; r < RR; r++) { H[r] = 0;
				for (en = of_mod2sparse_first_in_row(((cb_t *)ses)->pchk_matrix, r); !of_mod2sparse_at_end(en); en = of_mod2sparse_next_in_row(en)) H[r] |= 1u << col2esi(en->col); }
		}
#endif
	}
#if OFV_CB != 0
	st = of_set_callback_functions(ses, app_src_cb, (OFV_CB & 4) ? app_rep_cb : NULL, &ctx_token);
	ENSURES(st == OF_STATUS_OK, "set_callbacks.returns_ok");
#endif
	/* ---- the codeword: sources symbolic, repair r = XOR of the other symbols of equation r (repair part lower triangular, unit diagonal) */
	for (i = 0; i < K; i++) for (b = 0; b < LEN; b++) { IN_IJ(UINT8, in_src, i, b); sym[i][b] = in_src[i][b]; }
	for (r = 0; r < RR; r++)
		for (b = 0; b < LEN; b++) {
			UINT8 v = 0;
			for (i = 0; i < NN; i++) if (((H[r] >> i) & 1u) && i != K + r) v ^= sym[i][b];
			sym[K + r][b] = v;
		}
	for (i = 0; i < NN; i++) for (b = 0; b < LEN; b++) { rx[i][b] = sym[i][b]; rx2[i][b] = sym[i][b]; }
	for (i = 0; i < K; i++) first_ptr[i] = NULL;
#if OFV_CODEC == 3
	if (!OFV_EXTRA && (OFV_N1 & 1) == 0) received |= 1u << (NN - 1);	/* the library pretends it received the (zero) last repair symbol (C15) */
#endif
	/* ---- history ------------------------------------------------------------------------------------------------------------------ */
#if OFV_API == 0
	for (i = 0; i < NSEQ; i++) {
		UINT32 esi = seq[i];
		void *buf = ((received >> esi) & 1u) ? (void *)rx2[esi] : (void *)rx[esi];
		UINT32 before = spec_peel(received);
		if (esi < K && !((before >> esi) & 1u)) { first_ptr[esi] = buf; submitted_unknown |= 1u << esi; }
		st = of_decode_with_new_symbol(ses, buf, esi);
		ENSURES(st == OF_STATUS_OK, "decode.returns_ok");
		spec_note_arrival(received, esi);
		received |= 1u << esi;
		closure = spec_peel(received);
		REQUIRES(of_get_source_symbols_tab(ses, out) == OF_STATUS_OK);
		complete = of_is_decoding_complete(ses) ? 1 : 0;
		for (avail = 0, c = 0; c < K; c++) if (out[c] != NULL) avail |= 1u << c;
		ENSURES(avail == (closure & ALL_SRC), "stream.available_iff_in_peeling_closure");
		ENSURES(complete == ((closure & ALL_SRC) == ALL_SRC), "stream.complete_iff_closure_has_all_sources");
		ENSURES(complete || !was_complete, "complete.never_reverts");
		was_complete = complete;
		for (c = 0; c < K; c++)
			if (out[c] != NULL) {
				for (b = 0; b < LEN; b++) ENSURES(((UINT8 *)out[c])[b] == in_src[c][b], "sound.available_source_is_the_encoded_one");
				if ((submitted_unknown >> c) & 1u) ENSURES(out[c] == first_ptr[c], "pointer.submitted_while_unknown_is_kept");
			}
		check_engine_invariants((of_linear_binary_code_cb_t *)ses, complete);
	}
#else
	{
		void *tab[NN], *tab0[NN];
		for (i = 0; i < NN; i++) tab[i] = NULL;
		for (i = 0; i < NSEQ; i++) { tab[seq[i]] = rx[seq[i]]; }
		for (i = 0; i < NN; i++) tab0[i] = tab[i];
		st = of_set_available_symbols(ses, tab);
		ENSURES(st == OF_STATUS_OK, "set_available.returns_ok");
		for (i = 0; i < NN; i++)	/* the bulk API submits the table in increasing ESI order */
			if (tab[i] != NULL) {
				if (!LAZY_BULK && i < K && !((spec_peel(received) >> i) & 1u)) { first_ptr[i] = tab[i]; submitted_unknown |= 1u << i; }
				if (!LAZY_BULK) spec_note_arrival(received, i);
				received |= 1u << i;
			}
		for (i = 0; i < NN; i++) ENSURES(tab[i] == tab0[i], "frame.application_table_not_written");
		closure = spec_peel(received);
		REQUIRES(of_get_source_symbols_tab(ses, out) == OF_STATUS_OK);
		complete = of_is_decoding_complete(ses) ? 1 : 0;
		for (avail = 0, c = 0; c < K; c++) if (out[c] != NULL) avail |= 1u << c;
		/* the LDPC bulk API submits the symbols one by one to the peeling engine: same closure */
		if (!LAZY_BULK) {
			ENSURES(avail == (closure & ALL_SRC), "stream.available_iff_in_peeling_closure");
			ENSURES(complete == ((closure & ALL_SRC) == ALL_SRC), "stream.complete_iff_closure_has_all_sources");
		} else {
			ENSURES(avail == (received & ALL_SRC), "bulk2d.available_are_the_supplied_sources");
		}
		was_complete = complete;
		for (c = 0; c < K; c++)
			if (out[c] != NULL)
				for (b = 0; b < LEN; b++) ENSURES(((UINT8 *)out[c])[b] == in_src[c][b], "sound.available_source_is_the_encoded_one");
		if (!LAZY_BULK) check_engine_invariants((of_linear_binary_code_cb_t *)ses, complete);
	}
#endif
	closure = spec_peel(received);
#if OFV_FINISH
	{
		int determined = spec_full_rank(((1u << NN) - 1u) & ~received);
		UINT32 avail_before = LAZY_BULK ? (received & ALL_SRC) : (closure & ALL_SRC);
		st = of_finish_decoding(ses);
		REQUIRES(of_get_source_symbols_tab(ses, out) == OF_STATUS_OK);
		complete = of_is_decoding_complete(ses) ? 1 : 0;
		for (avail = 0, c = 0; c < K; c++) if (out[c] != NULL) avail |= 1u << c;
		spec_decoded |= avail & ~avail_before;
		ENSURES((avail == ALL_SRC) == (determined != 0), "finish.recovers_all_iff_uniquely_determined");
		if (!determined) ENSURES(!complete && (LAZY_BULK ? (avail & ~(closure & ALL_SRC)) == 0 : avail == avail_before), "finish.incomplete_otherwise");
		ENSURES(complete == (avail == ALL_SRC), "complete.iff_all_sources_available");
		ENSURES(complete || !was_complete, "complete.never_reverts");
		ENSURES((st == OF_STATUS_OK) == (complete != 0), "finish.ok_iff_complete_afterwards");
		ENSURES((st == OF_STATUS_FAILURE) == (complete == 0), "finish.failure_iff_incomplete_afterwards");
		for (c = 0; c < K; c++)
			if (out[c] != NULL) {
				for (b = 0; b < LEN; b++) ENSURES(((UINT8 *)out[c])[b] == in_src[c][b], "sound.available_source_is_the_encoded_one");
				if ((submitted_unknown >> c) & 1u) ENSURES(out[c] == first_ptr[c], "pointer.submitted_while_unknown_is_kept");
			}
	}
#else
	REQUIRES(of_get_source_symbols_tab(ses, out) == OF_STATUS_OK);
	for (avail = 0, c = 0; c < K; c++) if (out[c] != NULL) avail |= 1u << c;
#endif
	/* ---- callbacks (C11) ------------------------------------------------------------------------------------------------------------ */
#if OFV_CB != 0
	ENSURES(cb_src_bad == 0 && cb_rep_bad == 0, "callback.size_and_esi");
	for (c = 0; c < K; c++) {
		int decoded = (int)((spec_decoded >> c) & 1u);
		ENSURES(cb_src_calls[c] == (decoded ? 1u : 0u), "callback.exactly_once_per_decoded_source_never_for_received");
		if (decoded && cb_src_calls[c] == 1 && cb_src_buf[c] != NULL)
			ENSURES(out[c] == cb_src_buf[c], "callback.buffer_is_reported_and_holds_value");
	}
#endif
	/* ---- frame (C07) ---------------------------------------------------------------------------------------------------------------- */
	for (i = 0; i < NN; i++) for (b = 0; b < LEN; b++) ENSURES(rx[i][b] == sym[i][b] && rx2[i][b] == sym[i][b], "frame.received_symbols_never_written");
	/* ---- release (C08): decoded source symbols belong to the application ---------------------------------------------------------- */
#if OFV_RELEASE
	for (c = 0; c < K; c++)
		if (out[c] != NULL && out[c] != (void *)rx[c] && out[c] != (void *)rx2[c]) free(out[c]);
	st = of_release_codec_instance(ses);
	ENSURES(st == OF_STATUS_OK, "release.returns_ok");
#endif
	REACHED("end");
	OFV_MAIN_RETURN;
}
