/* C12 — sessions are independent of each other.  BOUNDED two-run (2-safety) contract on the real library.
 *
 *   run 1   the complete life of a session pair "A" (an encoder session: create, configure, build every repair symbol, release; then a decoder
 *           session: create, configure, submit the symbols of OFV_MASK in increasing order, of_finish_decoding if not complete, queries, release)
 *           with, before (OFV_LEAD 1) or after (0) every call of A, one step of the life of another session pair "B" (other codec, other field, other
 *           parameters or the same ones): create / configure / encode / release an encoder, create / configure a decoder, submit symbols, finish,
 *           release; the process-wide PRNG state starts from an arbitrary (symbolic) value
 *   restart __CPROVER_initialize(): every object of static storage duration is back to its initial value - a fresh process
 *   run 2   the same calls of A with the same arguments, alone
 *   ensures every status, every repair symbol byte, the completion flag after every call, the set of available source symbols and every byte of
 *           them are identical in the two runs, for all source data of A and B (symbolic)                 (independent.<what>)
 *
 *   real code: everything (LDPC-Staircase with the REAL matrix construction and PRNG, Reed-Solomon GF(2^m) with m = 4: real generator, encoder,
 *   matrix inversion, kernels, static tables).  Not covered: the legacy GF(2^8) codec (its lazily generated tables cannot be built inside CBMC; that
 *   their contents do not depend on what the tables held before is C14's legacy.generate_gf obligation) and the 2D codec.
 *   constants: the codecs and parameters of A (OFV_A) and B (OFV_B), the received set OFV_MASK.  BOUNDED: these instances, these interleavings.
 */
#include "ofv.h"
#include "of_openfec_api.h"
#include "lib_stable/ldpc_staircase/of_ldpc_includes.h"
#include "lib_stable/reed-solomon_gf_2_m/of_reed-solomon_gf_2_m_includes.h"
extern UINT64 of_seed;

/* session kinds (the same table for A and B) */
typedef struct { int kind; of_codec_id_t id; UINT32 k, r, len, n1, seed, m; } kind_t;
static const kind_t kinds[] = {
	{21, OF_CODEC_REED_SOLOMON_GF_2_M_STABLE, 3, 2, 2, 0, 0, 4},	/* n = 5: the smallest size for which the GF(2^4) and GF(2^8) generators differ */
	{22, OF_CODEC_REED_SOLOMON_GF_2_M_STABLE, 3, 2, 2, 0, 0, 8},	/* same (k, n-k) as 21, other field */
	{23, OF_CODEC_REED_SOLOMON_GF_2_M_STABLE, 3, 1, 1, 0, 0, 4},
	{31, OF_CODEC_LDPC_STAIRCASE_STABLE, 3, 3, 2, 3, 5, 0},
	{32, OF_CODEC_LDPC_STAIRCASE_STABLE, 2, 4, 1, 4, 1, 0},		/* N1 even: the decoder injects the zero last repair symbol */
	{33, OF_CODEC_LDPC_STAIRCASE_STABLE, 2, 3, 1, 3, 77, 0},
	{34, OF_CODEC_LDPC_STAIRCASE_STABLE, 2, 4, 3, 4, 1, 0},		/* as 32 with longer symbols */
	{35, OF_CODEC_LDPC_STAIRCASE_STABLE, 3, 3, 2, 3, 6, 0},		/* as 31 with another seed */
	{36, OF_CODEC_LDPC_STAIRCASE_STABLE, 3, 4, 2, 3, 2147483646u, 0},	/* the largest valid seed; N1 < n-k so that the matrix does depend on the PRNG (with N1 == n-k it is full) */
	{37, OF_CODEC_LDPC_STAIRCASE_STABLE, 3, 4, 1, 3, 9, 0},
	{24, OF_CODEC_REED_SOLOMON_GF_2_M_STABLE, 6, 3, 1, 0, 0, 8},	/* n = 9: exponents of the generator construction exceed 2^4 - 1 */
	{25, OF_CODEC_REED_SOLOMON_GF_2_M_STABLE, 6, 3, 1, 0, 0, 4},
};
static const kind_t *kind_of(int kd) { unsigned i; for (i = 0; i < sizeof kinds / sizeof kinds[0]; i++) if (kinds[i].kind == kd) return &kinds[i]; return &kinds[0]; }
#ifndef OFV_BIG
#define KMAX 3
#else
#define KMAX 6
#endif
#define RMAX 4
#define NMAX (KMAX + RMAX)
#define LMAX 3

UINT8 in_srcA[KMAX][LMAX], in_srcB[KMAX][LMAX];
UINT64 in_prng_before;

/* TRUSTED: libc rand() is a constant sequence */
static const int rand_seq[] = {0, 2, 1, 1, 0, 2, 2, 0, 1, 0, 0, 1, 2};
static unsigned rand_calls;
int rand(void) { int v = rand_seq[rand_calls % (sizeof rand_seq / sizeof rand_seq[0])]; rand_calls++; return v; }

/* kernel contracts (C13) standing for the GF multiply-accumulate kernels at their call sites (goto-instrument --replace-calls): dst[i] ^= c * src[i]
 * for i < sz. (The real kernels form a pointer before the buffer for sz < 15, which CBMC's object model mis-compares; section 10.3.) */
void stub_addmul1_2_8(gf *dst, gf *src, gf c, int sz) { int i; for (i = 0; i < sz; i++) dst[i] ^= of_gf_2_8_mul_table[c][src[i]]; }
void stub_addmul1_2_4(gf *dst, gf *src, gf c, int sz) { int i; for (i = 0; i < sz; i++) dst[i] ^= of_gf_2_4_mul_table[c][src[i]]; }
void stub_addmul1_2_4_compact(gf *dst, gf *src, gf c, int sz)
{ int i; for (i = 0; i < sz; i++) dst[i] ^= (gf)((of_gf_2_4_mul_table[c][src[i] >> 4] << 4) | of_gf_2_4_mul_table[c][src[i] & 15]); }
#ifndef OFV_NATIVE
/* TRUSTED: cbmc 6.11 ships no model of bcopy(3) / bcmp(3) */
void bcopy(const void *src, void *dst, size_t n) { memmove(dst, src, n); }
#undef bcmp
int bcmp(const void *a, const void *b, size_t n) { return memcmp(a, b, n); }
#endif

typedef union { of_ldpc_parameters_t l; of_rs_2_m_parameters_t r; } params_t;
static void fill_params(const kind_t *kd, params_t *buf)
{
	if (kd->id == OF_CODEC_LDPC_STAIRCASE_STABLE) {
		of_ldpc_parameters_t *p = &buf->l; memset(p, 0, sizeof *p);
		p->nb_source_symbols = kd->k; p->nb_repair_symbols = kd->r; p->encoding_symbol_length = kd->len; p->prng_seed = (INT32)kd->seed; p->N1 = (UINT8)kd->n1;
	} else {
		of_rs_2_m_parameters_t *p = &buf->r; memset(p, 0, sizeof *p);
		p->nb_source_symbols = kd->k; p->nb_repair_symbols = kd->r; p->encoding_symbol_length = kd->len; p->m = (UINT16)kd->m;
	}
}

/* ---- session pair B, one step at a time ---------------------------------------------------------------------------------------------------- */
static void b_step(unsigned step, of_session_t **b_enc, of_session_t **b_dec, UINT8 b_sym[NMAX][LMAX], void *b_tab[NMAX], UINT8 srcB[KMAX][LMAX])
{
	const kind_t *kb = kind_of(OFV_B);
	params_t p;
	UINT32 i, b, bn = kb->k + kb->r;
	switch (step) {
	case 0: (void)of_create_codec_instance(b_enc, kb->id, OF_ENCODER, 0); break;
	case 1: fill_params(kb, &p); (void)of_set_fec_parameters(*b_enc, (of_parameters_t *)&p);
		for (i = 0; i < bn; i++) { for (b = 0; b < kb->len; b++) b_sym[i][b] = (i < kb->k) ? srcB[i][b] : 0; b_tab[i] = b_sym[i]; }
		break;
	case 2: for (i = kb->k; i < bn; i++) (void)of_build_repair_symbol(*b_enc, b_tab, i); break;
	case 3: (void)of_release_codec_instance(*b_enc); *b_enc = NULL; (void)of_create_codec_instance(b_dec, kb->id, OF_DECODER, 0); break;
	case 4: fill_params(kb, &p); (void)of_set_fec_parameters(*b_dec, (of_parameters_t *)&p); break;
	case 5: (void)of_decode_with_new_symbol(*b_dec, b_tab[bn - 1], bn - 1); break;
	case 6: for (i = 1; i < kb->k; i++) (void)of_decode_with_new_symbol(*b_dec, b_tab[i], i); break;
	case 7: if (!of_is_decoding_complete(*b_dec)) (void)of_finish_decoding(*b_dec); break;
	case 8: {
		void *out[KMAX];
		if (of_get_source_symbols_tab(*b_dec, out) == OF_STATUS_OK)
			for (i = 0; i < kb->k; i++) if (out[i] != NULL && out[i] != b_tab[i]) free(out[i]);
		(void)of_release_codec_instance(*b_dec); *b_dec = NULL;
		break; }
	default: break;
	}
}

/* ---- session pair A, recorded ------------------------------------------------------------------------------------------------------------------ */
#define NST 40
typedef struct { int st[NST]; unsigned nst; UINT8 rep[RMAX][LMAX]; int complete[NMAX + 2]; UINT32 avail; UINT8 src[KMAX][LMAX]; } record_t;

static void run_A(int interleave, record_t *o, UINT8 srcA[KMAX][LMAX], UINT8 srcB[KMAX][LMAX])
{
	const kind_t *ka = kind_of(OFV_A);
	of_session_t *enc = NULL, *dec = NULL, *b_enc = NULL, *b_dec = NULL;
	params_t p;
	UINT8 sym[NMAX][LMAX], b_sym[NMAX][LMAX];
	void *tab[NMAX], *out[KMAX], *b_tab[NMAX];
	UINT32 i, b, an = ka->k + ka->r;
	unsigned bs = 0, nc = 0;
	/* OFV_LEAD 1: the other session's step comes BEFORE each call of A, 0: after it */
#define REC(x) do { if (interleave && OFV_LEAD) b_step(bs++, &b_enc, &b_dec, b_sym, b_tab, srcB); if (o->nst < NST) o->st[o->nst++] = (int)(x); \
		    if (interleave && !OFV_LEAD) b_step(bs++, &b_enc, &b_dec, b_sym, b_tab, srcB); } while (0)
	o->nst = 0; o->avail = 0;
	for (i = 0; i < NMAX; i++) { for (b = 0; b < LMAX; b++) sym[i][b] = (i < ka->k && b < ka->len) ? srcA[i][b] : 0; tab[i] = sym[i]; }
	REC(of_create_codec_instance(&enc, ka->id, OF_ENCODER, 0));
	fill_params(ka, &p);
	REC(of_set_fec_parameters(enc, (of_parameters_t *)&p));
	for (i = ka->k; i < an; i++) REC(of_build_repair_symbol(enc, tab, i));
	for (i = 0; i < RMAX; i++) for (b = 0; b < LMAX; b++) o->rep[i][b] = (i < ka->r && b < ka->len) ? sym[ka->k + i][b] : 0;
	REC(of_release_codec_instance(enc));
	REC(of_create_codec_instance(&dec, ka->id, OF_DECODER, 0));
	REC(of_set_fec_parameters(dec, (of_parameters_t *)&p));
	for (i = 0; i < an; i++)
		if ((OFV_MASK >> i) & 1u) {
			REC(of_decode_with_new_symbol(dec, tab[i], i));
			o->complete[nc++] = of_is_decoding_complete(dec) ? 1 : 0;
		}
	while (nc < NMAX) o->complete[nc++] = -1;
	if (!of_is_decoding_complete(dec)) REC(of_finish_decoding(dec)); else REC(-7);
	o->complete[NMAX] = of_is_decoding_complete(dec) ? 1 : 0;
	REC(of_get_source_symbols_tab(dec, out));
	for (i = 0; i < KMAX; i++) {
		for (b = 0; b < LMAX; b++) o->src[i][b] = 0;
		if (i < ka->k && out[i] != NULL) {
			o->avail |= 1u << i;
			for (b = 0; b < ka->len; b++) o->src[i][b] = ((UINT8 *)out[i])[b];
			if (out[i] != tab[i]) free(out[i]);
		}
	}
	REC(of_release_codec_instance(dec));
	while (interleave && bs < 9) b_step(bs++, &b_enc, &b_dec, b_sym, b_tab, srcB);
#undef REC
}

void __CPROVER_initialize(void);

int main(void)
{
	record_t r1, r2;			/* locals: they survive the "process restart" below */
	UINT8 srcA[KMAX][LMAX], srcB[KMAX][LMAX];
	UINT32 i, b;
	for (i = 0; i < KMAX; i++) for (b = 0; b < LMAX; b++) { IN_IJ(UINT8, in_srcA, i, b); IN_IJ(UINT8, in_srcB, i, b); srcA[i][b] = in_srcA[i][b]; srcB[i][b] = in_srcB[i][b]; }
	IN(UINT64, in_prng_before);
	of_seed = in_prng_before;		/* whatever earlier sessions may have left in the process-wide PRNG */
	run_A(1, &r1, srcA, srcB);		/* the life of A interleaved with the life of B */
#ifndef OFV_NATIVE
	__CPROVER_initialize();			/* a fresh process: every object of static storage duration back to its initial value */
#endif
	of_seed = 12345;			/* ... in which the PRNG has been left in some other valid state (a session must not depend on it) */
	run_A(0, &r2, srcA, srcB);		/* the same calls of A alone */
	ENSURES(r1.nst == r2.nst, "independent.same_calls");
	for (i = 0; i < r1.nst && i < NST; i++) ENSURES(r1.st[i] == r2.st[i], "independent.statuses");
	for (i = 0; i < RMAX; i++) for (b = 0; b < LMAX; b++) ENSURES(r1.rep[i][b] == r2.rep[i][b], "independent.repair_symbols");
	for (i = 0; i <= NMAX; i++) ENSURES(r1.complete[i] == r2.complete[i], "independent.completion");
	ENSURES(r1.avail == r2.avail, "independent.available_sources");
	for (i = 0; i < KMAX; i++) for (b = 0; b < LMAX; b++) ENSURES(r1.src[i][b] == r2.src[i][b], "independent.decoded_symbols");
	REQUIRES(r2.st[0] == OF_STATUS_OK && r2.st[1] == OF_STATUS_OK);	/* vacuity guard: the quiet run is a real session */
	REACHED("end");
	OFV_MAIN_RETURN;
}
