/* C09 — dispatch-layer argument validation (of_openfec_api.c) with the real Reed-Solomon codec underneath:
 *  requires  a session created and configured by the real functions (any role, any accepted k, n-k with n <= 16, length 1..4),
 *            in any availability state reachable before decoding finishes is irrelevant here: no symbol submitted
 *  for every API entry point (in_call) and every single-argument corruption of an otherwise valid call (in_bad):
 *            NULL session; role the instance was not created for; ESI >= n (or < k for building); NULL table / buffer
 *  ensures   the call returns an error status (false for of_is_decoding_complete)            (dispatch.rejects)
 *            the control block and the availability table are unchanged: empty frame          (dispatch.session_untouched)
 *            the caller's tables/buffers are unchanged                                        (dispatch.caller_memory_untouched)
 */
#include "ofv.h"
#include "of_openfec_api.h"
#if OFV_CODEC == 1
#include "lib_stable/reed-solomon_gf_2_8/of_reed-solomon_gf_2_8_includes.h"
typedef of_rs_cb_t cb_t;
#define CODEC_ID OF_CODEC_REED_SOLOMON_GF_2_8_STABLE
#else
#include "lib_stable/reed-solomon_gf_2_m/of_reed-solomon_gf_2_m_includes.h"
typedef of_rs_2_m_cb_t cb_t;
#define CODEC_ID OF_CODEC_REED_SOLOMON_GF_2_M_STABLE
#endif
#define NMAX 16

UINT32 in_k, in_r, in_len, in_role, in_call, in_bad, in_esi, g_i;

enum { BAD_NULL_SES = 0, BAD_ROLE = 1, BAD_ESI = 2, BAD_NULL_ARG = 3 };
enum { C_BUILD = 0, C_DECODE = 1, C_SETAVAIL = 2, C_FINISH = 3, C_COMPLETE = 4, C_GETTAB = 5, C_SETPARAMS = 6, C_CALLBACKS = 7, C_GETCTRL = 8, C_SETCTRL = 9, C_NCALLS = 10 };

int main(void)
{
	of_session_t *ses = NULL, *arg_ses;
	void *tab[NMAX], *tab0[NMAX];
	UINT8 bufs[NMAX][4], sym[4] = {1, 2, 3, 4};
	cb_t snap;
	void *tabsnap[NMAX];
	UINT32 i, n, v32 = 0;
	int rejected = 0, applicable = 1;

	IN(UINT32, in_k); IN(UINT32, in_r); IN(UINT32, in_len); IN(UINT32, in_role);
	in_call = OFV_CALL;	/* entry point and corruption kind are harness constants: one run per applicable pair */
	in_bad = OFV_BAD;
	IN(UINT32, in_esi); IN(UINT32, g_i);
	REQUIRES(in_k >= 1 && in_r >= 1 && in_k + in_r <= NMAX && in_k + in_r <= 15 && in_len >= 1 && in_len <= 4);
	REQUIRES(in_role == OF_ENCODER || in_role == OF_DECODER || in_role == OF_ENCODER_AND_DECODER);
	REQUIRES(in_call < C_NCALLS && in_bad <= BAD_NULL_ARG);
	n = in_k + in_r;
	REQUIRES(of_create_codec_instance(&ses, CODEC_ID, (of_codec_type_t)in_role, 0) == OF_STATUS_OK && ses != NULL);
	{
#if OFV_CODEC == 1
		of_rs_parameters_t p;
		memset(&p, 0, sizeof p);
#else
		of_rs_2_m_parameters_t p;
		memset(&p, 0, sizeof p);
		p.m = 4;
#endif
		p.nb_source_symbols = in_k; p.nb_repair_symbols = in_r; p.encoding_symbol_length = in_len;
		REQUIRES(of_set_fec_parameters(ses, (of_parameters_t *)&p) == OF_STATUS_OK);
	}
	for (i = 0; i < NMAX; i++)
		tab[i] = tab0[i] = (i < n) ? (void *)bufs[i] : NULL;
	memcpy(&snap, ses, sizeof snap);
	for (i = 0; i < NMAX; i++)
		tabsnap[i] = (i < n) ? ((cb_t *)ses)->available_symbols_tab[i] : NULL;

	arg_ses = (in_bad == BAD_NULL_SES) ? NULL : ses;
	if (in_bad == BAD_ROLE) {
		/* the role this call needs must be one the instance was NOT created for */
		int needs_enc = (in_call == C_BUILD);
		int needs_dec = (in_call == C_DECODE || in_call == C_SETAVAIL || in_call == C_FINISH || in_call == C_COMPLETE || in_call == C_GETTAB);
		applicable = (needs_enc && !(in_role & OF_ENCODER)) || (needs_dec && !(in_role & OF_DECODER));
	}
	if (in_bad == BAD_ESI) {
		applicable = (in_call == C_BUILD || in_call == C_DECODE);
		if (in_call == C_BUILD) REQUIRES(in_esi < in_k || in_esi >= n);
		else REQUIRES(in_esi >= n);
	} else {
		REQUIRES(in_call == C_BUILD ? (in_esi >= in_k && in_esi < n) : in_esi < n);
	}
	if (in_bad == BAD_NULL_ARG)
		applicable = (in_call == C_DECODE || in_call == C_SETAVAIL || in_call == C_SETPARAMS);	/* the NULL checks the layer documents */
	REQUIRES(applicable);
	/* for corruptions other than the role, use a role that allows the call */
	if (in_bad != BAD_ROLE) {
		if (in_call == C_BUILD) REQUIRES(in_role & OF_ENCODER);
		if (in_call >= C_DECODE && in_call <= C_GETTAB) REQUIRES(in_role & OF_DECODER);
	}

	switch (OFV_CALL) {
	case C_BUILD:
		rejected = of_build_repair_symbol(arg_ses, tab, in_esi) != OF_STATUS_OK; break;
	case C_DECODE:
		rejected = of_decode_with_new_symbol(arg_ses, in_bad == BAD_NULL_ARG ? NULL : (void *)sym, in_esi) != OF_STATUS_OK; break;
	case C_SETAVAIL:
		rejected = of_set_available_symbols(arg_ses, in_bad == BAD_NULL_ARG ? NULL : tab) != OF_STATUS_OK; break;
	case C_FINISH:
		rejected = of_finish_decoding(arg_ses) != OF_STATUS_OK; break;
	case C_COMPLETE:
		rejected = of_is_decoding_complete(arg_ses) == false; break;
	case C_GETTAB:
		rejected = of_get_source_symbols_tab(arg_ses, tab) != OF_STATUS_OK; break;
	case C_SETPARAMS: {
		of_parameters_t q; q.nb_source_symbols = 1; q.nb_repair_symbols = 1; q.encoding_symbol_length = 1;
		rejected = of_set_fec_parameters(arg_ses, in_bad == BAD_NULL_ARG ? NULL : &q) != OF_STATUS_OK; break; }
	case C_CALLBACKS:
		rejected = of_set_callback_functions(arg_ses, NULL, NULL, NULL) != OF_STATUS_OK; break;
	case C_GETCTRL:
		rejected = of_get_control_parameter(arg_ses, OF_CTRL_GET_MAX_K, &v32, sizeof v32) != OF_STATUS_OK; break;
	default:
		rejected = of_set_control_parameter(arg_ses, OF_CTRL_GET_MAX_K, &v32, sizeof v32) != OF_STATUS_OK; break;
	}
	ENSURES(rejected, "dispatch.rejects");
	ENSURES(memcmp(&snap, ses, sizeof snap) == 0, "dispatch.session_untouched.control_block");
	REQUIRES(g_i < NMAX);
	if (g_i < n)
		ENSURES(((cb_t *)ses)->available_symbols_tab[g_i] == tabsnap[g_i], "dispatch.session_untouched.table");
	ENSURES(tab[g_i] == tab0[g_i], "dispatch.caller_memory_untouched");
	REACHED("after_call");
	OFV_MAIN_RETURN;
}
