/* C16 — 2D parity code structure (of_create_pchk.c, of_2d_parity.h), contracts enforced on the real functions.
 * OFV_T 1  fill contract: of_fill_2D_pchk_matrix(m, a, b) on a real (a+b) x (a*b+a+b) sparse matrix, shape (a,b) a harness
 *          constant (one run per admissible shape: finite family), for every cell (g_r, g_c) of the matrix:
 *              entry present  <==>  spec_2d_member(a, b, g_r, g_c)
 *            i.e. row r < a holds its own repair column r and the b sources r*b .. r*b+b-1 (one grid line), row a+c holds
 *            its own repair column and the a sources c, c+b, c+2b, ... (one grid column): the a x b product
 *            single-parity code; every source is in exactly one check of each kind, each check has its own repair symbol.
 *       2  factorisation contract: of_create_2D_pchk_matrix(r, n) with of_mod2sparse_allocate / of_fill_2D_pchk_matrix
 *          replaced by recording stubs, (k, r) symbolic over the whole accepted range (k <= 16, n <= 24):
 *            returns non-NULL  ==> it allocated (a+b) x (a*b+a+b) and filled with (a, b), a*b == k, a+b == r
 *            no factorisation exists or r >= n ==> NULL, nothing allocated
 *       3  layout lemma: the fields the generic IT/ML engines touch sit at the same offsets in of_2d_parity_cb_t and
 *          of_linear_binary_code_cb_t (the codec casts one to the other)
 */
#include "ofv.h"
#include "of_openfec_api.h"
#include "linear_binary_codes_utils/of_linear_binary_code.h"

UINT32 g_r, g_c, in_k, in_r;

static int spec_2d_member(UINT32 a, UINT32 b, UINT32 row, UINT32 col)
{
	UINT32 s;
	if (col < a + b)
		return col == row;		/* each check has its own repair symbol */
	s = col - (a + b);			/* source index 0 .. a*b-1, grid position (s / b, s % b) */
	if (row < a)
		return s / b == row;		/* line checks */
	return s % b == row - a;		/* column checks */
}

#if OFV_T == 1
int main(void)
{
	of_mod2sparse *m;
	m = of_mod2sparse_allocate(OFV_A + OFV_B, OFV_A * OFV_B + OFV_A + OFV_B);
	REQUIRES(m != NULL);
	of_fill_2D_pchk_matrix(m, OFV_A, OFV_B, 0);
	/* the shape is a constant, so the for-all over cells is written out (every cell of the matrix is checked) */
	for (g_r = 0; g_r < OFV_A + OFV_B; g_r++)
		for (g_c = 0; g_c < OFV_A * OFV_B + OFV_A + OFV_B; g_c++)
			ENSURES((of_mod2sparse_find(m, g_r, g_c) != NULL) == (spec_2d_member(OFV_A, OFV_B, g_r, g_c) != 0), "2d.fill.cell_iff_member");
	REACHED("after_fill");
	OFV_MAIN_RETURN;
}
#elif OFV_T == 2
/* recording stubs standing for the contracts of the two callees (their own contracts: C17 allocate, OFV_T 1 fill);
 * the driver redirects the calls made by the real of_create_2D_pchk_matrix with goto-instrument --replace-calls */
static UINT32 rec_alloc_calls, rec_alloc_rows, rec_alloc_cols, rec_fill_calls, rec_fill_a, rec_fill_b;
static of_mod2sparse rec_matrix;
of_mod2sparse *stub_allocate(UINT32 n_rows, UINT32 n_cols)
{
	rec_alloc_calls++; rec_alloc_rows = n_rows; rec_alloc_cols = n_cols;
	return &rec_matrix;
}
of_mod2sparse *stub_fill(of_mod2sparse *m, UINT32 d, UINT32 l, UINT8 verbosity)
{
	rec_fill_calls++; rec_fill_a = d; rec_fill_b = l;
	return m;
}
int main(void)
{
	of_mod2sparse *m;
	UINT32 a, exists = 0;
	IN(UINT32, in_k); IN(UINT32, in_r);
	REQUIRES(in_k >= 1 && in_k <= 16 && in_r >= 1 && in_k + in_r <= 24);
	m = of_create_2D_pchk_matrix(in_r, in_k + in_r, Type2DMATRIX, 0);
	for (a = 1; a <= 16; a++)
		if (a < in_r && a * (in_r - a) == in_k)
			exists = 1;
	ENSURES((m != NULL) == (exists != 0), "2d.create.accepts_iff_factorisation_exists");
	if (m != NULL) {
		ENSURES(rec_alloc_calls == 1 && rec_fill_calls == 1, "2d.create.one_allocation_one_fill");
		ENSURES(rec_fill_a * rec_fill_b == in_k && rec_fill_a + rec_fill_b == in_r, "2d.create.factorisation");
		ENSURES(rec_alloc_rows == in_r && rec_alloc_cols == in_k + in_r, "2d.create.dimensions");
	} else
		ENSURES(rec_alloc_calls == 0 && rec_fill_calls == 0, "2d.create.reject_allocates_nothing");
	REACHED("after_create");
	OFV_MAIN_RETURN;
}
#else
#include <stddef.h>
#include "lib_stable/2d_parity_matrix/of_2d_parity_includes.h"
#define SAME(f) ENSURES(offsetof(of_2d_parity_cb_t, f) == offsetof(of_linear_binary_code_cb_t, f), "2d.layout." #f)
int main(void)
{
	SAME(codec_id); SAME(codec_type); SAME(nb_source_symbols); SAME(nb_repair_symbols); SAME(encoding_symbol_length);
	SAME(nb_total_symbols); SAME(pchk_matrix); SAME(encoding_symbols_tab);
	SAME(nb_source_symbol_ready); SAME(nb_repair_symbol_ready);
	SAME(tab_nb_enc_symbols_per_equ); SAME(tab_nb_unknown_symbols); SAME(tab_nb_equ_for_repair); SAME(tab_const_term_of_equ);
	SAME(decoded_source_symbol_callback); SAME(decoded_repair_symbol_callback); SAME(context_4_callback);
	REACHED("end");
	OFV_MAIN_RETURN;
}
#endif
