/* C13 — contract of of_add_to_multiple_symbols(to[], from, to_size, symbol_size)  [of_symbol.c]
 *
 *  requires  from: object of EXACTLY symbol_size bytes; to: array of EXACTLY to_size pointers, each to a
 *            distinct object of EXACTLY symbol_size bytes
 *  ensures   for every g_k < symbol_size and every j < to_size: to[j][g_k] == old(to[j][g_k]) ^ from[g_k]  (post.value)
 *            from[g_k] unchanged (post.from_unchanged); pointer table unchanged (post.table_unchanged)
 *  alignment every target at address = in_ta mod 8, every source at in_fa mod 8 (leading slack inside the object)
 *  frame     exact-size objects + pointer checks
 *  BOUNDED: OFV_SIZE and OFV_COUNT are harness constants (one run per pair), contents and g_k symbolic.
 */
#include "ofv.h"
#include "of_openfec_api.h"
#include "linear_binary_codes_utils/of_linear_binary_code.h"

#ifndef OFV_SIZE
#error "OFV_SIZE"
#endif
#ifndef OFV_COUNT
#error "OFV_COUNT"
#endif

UINT32 g_k, in_ta, in_fa;
UINT8 in_from_k;
UINT8 in_to_k[OFV_COUNT + 1];

int main(void)
{
	UINT32 j;
	IN(UINT32, g_k);
#ifdef OFV_TA
	in_ta = OFV_TA;		/* alignment (address mod 8) of the target(s): harness constant ... */
	in_fa = OFV_FA;		/* ... and of the source(s) */
#else
	IN(UINT32, in_ta);
	IN(UINT32, in_fa);
#endif
	REQUIRES(in_ta < 8 && in_fa < 8);
	REQUIRES(OFV_SIZE == 0 ? g_k == 0 : g_k < OFV_SIZE);
	UINT8 *from = (UINT8 *)OFV_MALLOC(in_fa + OFV_SIZE) + in_fa;
	void **to = OFV_MALLOC(OFV_COUNT * sizeof(void *));
	void *saved[OFV_COUNT + 1];
	REQUIRES(to != NULL && from != NULL);
	for (j = 0; j < OFV_COUNT; j++) {
		UINT8 *p = OFV_MALLOC(in_ta + OFV_SIZE);
		REQUIRES(p != NULL);
		p += in_ta;
		to[j] = saved[j] = p;
		if (OFV_SIZE > 0)
			IN_MEM_I(UINT8, in_to_k, j, p[g_k]);
	}
	if (OFV_SIZE > 0)
		IN_MEM(UINT8, in_from_k, from[g_k]);

	of_add_to_multiple_symbols(to, from, OFV_COUNT, OFV_SIZE);

	if (OFV_SIZE > 0) {
		for (j = 0; j < OFV_COUNT; j++)
			ENSURES(((UINT8 *)saved[j])[g_k] == (UINT8)(in_to_k[j] ^ in_from_k), "post.value");
		ENSURES(from[g_k] == in_from_k, "post.from_unchanged");
	}
	for (j = 0; j < OFV_COUNT; j++)
		ENSURES(to[j] == saved[j], "post.table_unchanged");
	REACHED("after_call");
	OFV_MAIN_RETURN;
}
