"""ofv core: build / instrument / discharge one job with CBMC, triage results, native replay.

A Job is one CBMC run on the real sources of /repo plus a harness (and contracts) from /verif.
Nothing here knows about individual properties; those live in /verif/checks/cXX.py.
"""
import json, os, re, resource, shutil, subprocess, sys, threading, time, hashlib

VERIF = os.path.dirname(os.path.dirname(os.path.abspath(__file__)))
REPO = os.environ.get("OFV_REPO", "/repo")
SRC = os.path.join(REPO, "src")
WORK = os.path.join(VERIF, ".work")
GUARD = "OPENFEC_VERIF"

INC_DIRS = [
    "", "lib_common", "lib_common/linear_binary_codes_utils",
    "lib_common/linear_binary_codes_utils/binary_matrix",
    "lib_common/linear_binary_codes_utils/it_decoding",
    "lib_common/linear_binary_codes_utils/ml_decoding",
    "lib_common/statistics",
    "lib_stable/reed-solomon_gf_2_8", "lib_stable/reed-solomon_gf_2_m",
    "lib_stable/reed-solomon_gf_2_m/galois_field_codes_utils",
    "lib_stable/ldpc_staircase", "lib_stable/2d_parity_matrix",
]
# the configuration of the pinned CMake build: release (no OF_DEBUG), little endian, LP64 (goto-cc default on x86-64)
BASE_DEFS = ["-DOPENFEC_LITTLE_ENDIAN", "-D" + GUARD]

DEFAULT_CHECKS = ["--bounds-check", "--pointer-check", "--div-by-zero-check",
                  "--signed-overflow-check", "--pointer-overflow-check", "--no-malloc-may-fail"]


def inc_flags():
    fl = ["-I" + os.path.join(VERIF, "contracts")]
    for d in INC_DIRS:
        fl.append("-I" + os.path.join(SRC, d))
    return fl


class Job:
    def __init__(self, name, group, harness, functions, repo_sources=(), defines=None, entry="main",
                 loops=None, dfcc=None, unwind=None, unwindset=None, checks=None, extra_cbmc=(),
                 solver=None, timeout=600, mem_gb=8, status="proved", bound="", native=True,
                 native_sources=None, sample=None, object_bits=None, extra_cc=(), no_default_checks=False,
                 pre_unwindset=None, known=None, tu_included=()):
        self.name = name                # unique within the property
        self.group = group              # contract group (evidence aggregates per group)
        self.harness = harness          # file under /verif/contracts
        self.functions = list(functions)  # real functions of /repo whose contract this job enforces
        self.repo_sources = list(repo_sources)  # paths relative to /repo compiled together with the harness
        self.defines = dict(defines or {})
        self.entry = entry
        self.loops = loops              # file under /verif/loops (content-keyed loop contracts)
        self.dfcc = dfcc                # dict(enforce=[(f, c_f)], replace=[(g, c_g)], loop_contracts=bool)
        self.unwind = unwind
        self.unwindset = list(unwindset or [])
        self.checks = list(checks) if checks is not None else ([] if no_default_checks else list(DEFAULT_CHECKS))
        self.extra_cbmc = list(extra_cbmc)
        self.solver = solver            # None (minisat) | kissat | cadical | cvc5 | z3
        self.timeout = timeout
        self.mem_gb = mem_gb
        self.status = status            # 'proved' (no unwinding bound / finite domain complete) | 'bounded'
        self.bound = bound
        self.native = native            # harness can be compiled with -DOFV_NATIVE for replay
        self.native_sources = native_sources
        self.sample = sample
        self.object_bits = object_bits
        self.extra_cc = list(extra_cc)
        self.pre_unwindset = list(pre_unwindset or [])
        self.tu_included = list(tu_included)  # /repo .c files #included by the harness (left out of the native link)
        self.known = known              # id of a known-finding region this job is the witness for (see runner)
        # filled by run()
        self.result = None

    def key(self):
        return re.sub(r"[^A-Za-z0-9_.=-]", "_", self.name)


class JobResult:
    def __init__(self):
        self.state = "undecided"   # ok | violation | undecided
        self.reason = ""
        self.obligations = []      # dicts: name, prop, status, descr, loc
        self.failed = []           # obligations that count as violations
        self.canaries = 0
        self.wall = 0.0
        self.solver_s = 0.0
        self.cmds = []
        self.log = ""
        self.trace_inputs = {}     # first failing obligation: name -> value
        self.loop_contracts_applied = 0


def _limit(mem_gb):
    def f():
        b = int(mem_gb * (1 << 30))
        resource.setrlimit(resource.RLIMIT_AS, (b, b))
        os.setsid()
    return f


def sh(cmd, timeout, mem_gb, cwd=None, env=None):
    t0 = time.time()
    try:
        p = subprocess.Popen(cmd, stdout=subprocess.PIPE, stderr=subprocess.STDOUT, cwd=cwd, env=env,
                             preexec_fn=_limit(mem_gb))
        try:
            out, _ = p.communicate(timeout=timeout)
        except subprocess.TimeoutExpired:
            try:
                os.killpg(p.pid, 9)
            except Exception:
                p.kill()
            out, _ = p.communicate()
            return -9, out.decode("utf-8", "replace") + "\n[ofv] TIMEOUT after %ds" % timeout, time.time() - t0
        return p.returncode, out.decode("utf-8", "replace"), time.time() - t0
    except OSError as e:
        return -1, "[ofv] cannot run %s: %s" % (cmd[0], e), time.time() - t0


# ------------------------------------------------------------------ loop contracts, keyed by content

def resolve_loops(job, gb, wd, res):
    """Translate /verif/loops/<file> (content-keyed) into goto-instrument's --loop-contracts-file format.

    Each entry names the function, two tokens that must occur on the loop's source line, the variables the
    clauses mention (resolved to symbol-table names on every run) and the clauses.  Returns path or None
    (res.reason set)."""
    spec = json.load(open(os.path.join(VERIF, "loops", job.loops)))
    rc, out, _ = sh(["goto-instrument", "--show-loops", gb], 120, 4)
    loops = {}   # fn -> [(ordinal, file, line)]
    for m in re.finditer(r"Loop (\S+)\.(\d+):\s*\n\s*file (\S+) line (\d+) function (\S+)", out):
        loops.setdefault(m.group(5), []).append((int(m.group(2)), m.group(3), int(m.group(4))))
    rc, out, _ = sh(["goto-instrument", "--show-symbol-table", gb], 120, 4)
    symbols = re.findall(r"^Symbol\.+: (\S+)$", out, re.M)
    srcfiles = set()
    functions = []
    for fn, entries in spec["functions"].items():
        if fn not in loops:
            res.reason = "contracts need re-keying: function %s has no loops / does not exist" % fn
            return None
        outl = []
        used = set()
        for e in entries:
            cands = []
            for (ordn, f, line) in loops[fn]:
                try:
                    text = open(f, errors="replace").read().split("\n")[line - 1]
                except Exception:
                    text = ""
                if all(tok in text for tok in e["line_tokens"]):
                    cands.append((ordn, f, line))
            if "nth_match" in e:
                cands = cands[e["nth_match"]:e["nth_match"] + 1] if len(cands) > e["nth_match"] else []
            if len(cands) != 1:
                res.reason = ("contracts need re-keying: %s loop with tokens %s matches %d loops"
                              % (fn, e["line_tokens"], len(cands)))
                return None
            ordn, f, line = cands[0]
            if ordn in used:
                res.reason = "contracts need re-keying: two contracts resolve to loop %s.%d" % (fn, ordn)
                return None
            used.add(ordn)
            srcfiles.add(os.path.basename(f))
            smap = []
            for v in e.get("vars", []):
                pat = re.compile(r"^%s::(\d+::)*%s$" % (re.escape(fn), re.escape(v)))
                ms = [s for s in symbols if pat.match(s)]
                if len(ms) != 1:
                    res.reason = "contracts need re-keying: variable %s of %s resolves to %s" % (v, fn, ms)
                    return None
                smap.append("%s,%s" % (v, ms[0]))
            inv = e["invariants"]
            if isinstance(inv, list):
                inv = " && ".join("(%s)" % c for c in inv)
            d = {"loop_id": str(ordn), "assigns": e["assigns"], "invariants": inv, "symbol_map": ";".join(smap)}
            if e.get("decreases"):
                d["decreases"] = e["decreases"]
            outl.append(d)
        functions.append({fn: outl})
        res.loop_contracts_applied += len(outl)
    path = os.path.join(wd, "loops.json")
    json.dump({"sources": sorted(srcfiles), "functions": functions, "output": "OUTPUT"}, open(path, "w"), indent=1)
    return path


# ------------------------------------------------------------------ one job

def run_job(job, keep=False):
    res = JobResult()
    job.result = res
    t0 = time.time()
    wd = os.path.join(WORK, job.prop, job.key())
    shutil.rmtree(wd, ignore_errors=True)
    os.makedirs(wd)
    log = []

    def fail(reason, out=""):
        res.state = "undecided"
        res.reason = reason
        res.log = "\n".join(log) + "\n" + out[-6000:]
        res.wall = time.time() - t0
        open(os.path.join(wd, "log.txt"), "w").write(res.log)
        return res

    # 1. compile the real sources + harness
    defs = list(BASE_DEFS) + ["-D%s=%s" % (k, v) if v is not None else "-D%s" % k for k, v in job.defines.items()]
    srcs = [os.path.join(VERIF, "contracts", job.harness)] + [os.path.join(REPO, s) for s in job.repo_sources]
    for s in srcs:
        if not os.path.exists(s):
            return fail("source file missing: %s" % s)
    gb = os.path.join(wd, "a.gb")
    cmd = ["goto-cc"] + defs + inc_flags() + job.extra_cc + srcs + ["-o", gb]
    if job.entry != "main":
        cmd += ["--function", job.entry]
    res.cmds.append(" ".join(cmd))
    rc, out, _ = sh(cmd, 300, 8)
    log.append(out)
    if rc != 0 or not os.path.exists(gb):
        return fail("goto-cc failed", out)
    # every function under contract must exist in the binary
    rc, out, _ = sh(["goto-instrument", "--list-goto-functions", gb], 120, 4)
    for fn in job.functions:
        if not re.search(r"^\s*%s\b" % re.escape(fn), out, re.M) and (" " + fn + " ") not in out and (fn + "\n") not in out:
            return fail("function under contract not found in the compiled sources: %s" % fn, out[-2000:])
    cur = gb
    # 2. loop contracts (route L) — external JSON on unmodified source
    if job.loops:
        lj = resolve_loops(job, cur, wd, res)
        if lj is None:
            return fail(res.reason)
        nxt = os.path.join(wd, "b.gb")
        cmd = ["goto-instrument"]
        pre = job.pre_unwindset
        if pre:
            # inner contract-less loops under a contracted loop must be unwound first
            cmd0 = ["goto-instrument", "--unwindset", ",".join(pre), "--unwinding-assertions", cur, os.path.join(wd, "a2.gb")]
            res.cmds.append(" ".join(cmd0))
            rc, out, _ = sh(cmd0, 300, 8)
            log.append(out)
            if rc != 0:
                return fail("goto-instrument pre-unwind failed", out)
            cur = os.path.join(wd, "a2.gb")
        cmd += ["--loop-contracts-file", lj, "--apply-loop-contracts", cur, nxt]
        res.cmds.append(" ".join(cmd))
        rc, out, _ = sh(cmd, 300, 8)
        log.append(out)
        if rc != 0 or not os.path.exists(nxt):
            return fail("goto-instrument --apply-loop-contracts failed", out)
        cur = nxt
    # 3. function contracts (route D)
    if job.dfcc:
        nxt = os.path.join(wd, "c.gb")
        cmd = ["goto-instrument", "--dfcc", job.entry]
        for f, c in job.dfcc.get("enforce", []):
            cmd += ["--enforce-contract", "%s/%s" % (f, c) if c else f]
        for f, c in job.dfcc.get("replace", []):
            cmd += ["--replace-call-with-contract", "%s/%s" % (f, c) if c else f]
        if job.dfcc.get("loop_contracts"):
            cmd += ["--apply-loop-contracts"]
        cmd += [cur, nxt]
        res.cmds.append(" ".join(cmd))
        rc, out, _ = sh(cmd, 600, 8)
        log.append(out)
        if rc != 0 or not os.path.exists(nxt):
            return fail("goto-instrument --dfcc failed", out)
        cur = nxt
    # 4. discharge
    cmd = ["cbmc", cur, "--json-ui", "--trace", "--drop-unused-functions"] + job.checks + job.extra_cbmc
    if job.entry != "main" and not job.dfcc:
        cmd += ["--function", job.entry]
    if job.unwind is not None:
        cmd += ["--unwind", str(job.unwind)]
    if job.unwindset:
        cmd += ["--unwindset", ",".join(job.unwindset)]
    if job.unwind is not None or job.unwindset:
        cmd += ["--unwinding-assertions"]
    if job.object_bits:
        cmd += ["--object-bits", str(job.object_bits)]
    if job.solver == "kissat":
        cmd += ["--external-sat-solver", "kissat"]
    elif job.solver == "cadical":
        cmd += ["--sat-solver", "cadical"]
    elif job.solver == "cvc5":
        cmd += ["--cvc5"]
    elif job.solver == "z3":
        cmd += ["--z3"]
    res.cmds.append(" ".join(cmd))
    rc, out, dt = sh(cmd, job.timeout, job.mem_gb, cwd=wd)
    res.solver_s = dt
    if rc == -9:
        return fail("timeout after %ds (mem cap %d GB)" % (job.timeout, job.mem_gb), out[-3000:])
    try:
        start = out.index("[")
        data = json.loads(out[start:])
    except Exception:
        tail = out[-3000:]
        if "std::bad_alloc" in out or "Out of memory" in out or "out of memory" in out:
            return fail("solver out of memory (cap %d GB)" % job.mem_gb, tail)
        return fail("cbmc produced no parsable result (rc=%d)" % rc, tail)
    results = None
    msgs = []
    for item in data:
        if "result" in item:
            results = item["result"]
        if "messageText" in item:
            msgs.append(item["messageText"])
    alltext = "\n".join(msgs)
    log.append(alltext[-8000:])
    if re.search(r"\bignoring\b", alltext):
        return fail("cbmc reported an ignored construct (quantifier?) — result not trusted", alltext[-2000:])
    if results is None:
        return fail("cbmc gave no result list (rc=%d)" % rc, alltext[-3000:])
    undecided = []
    for r in results:
        descr = r.get("description", "")
        prop = r.get("property", "")
        loc = r.get("sourceLocation", {})
        st = r.get("status", "")
        name = descr if (".assertion." in prop or prop.startswith("assertion")) and descr else prop
        ob = {"name": name, "prop": prop, "status": st, "descr": descr,
              "loc": "%s:%s" % (os.path.relpath(loc.get("file", "?"), REPO) if loc.get("file", "").startswith(REPO) else os.path.basename(loc.get("file", "?")), loc.get("line", "?")),
              "function": loc.get("function", "")}
        if descr.startswith("ofv.canary"):
            res.canaries += 1
            if st != "FAILURE":
                undecided.append("vacuity: canary %s not reachable (status %s)" % (descr, st))
            continue
        res.obligations.append(ob)
        if st == "SUCCESS":
            continue
        if st == "FAILURE":
            if "unwind" in prop or descr.startswith("unwinding assertion") or "recursion unwinding" in descr:
                undecided.append("unwinding bound too small: %s %s" % (prop, descr))
            else:
                ob["trace"] = r.get("trace")
                res.failed.append(ob)
        else:
            undecided.append("obligation %s has status %s" % (prop, st))
    if res.canaries == 0:
        undecided.append("vacuity: harness has no reachability canary")
    if job.loops and res.loop_contracts_applied:
        n_step = sum(1 for o in res.obligations if "loop invariant is preserved" in o["descr"] or "invariant after step" in o["descr"])
        if n_step < res.loop_contracts_applied:
            undecided.append("loop contract silently dropped: %d applied, %d preservation obligations" % (res.loop_contracts_applied, n_step))
    if not res.obligations:
        undecided.append("vacuity: zero obligations generated")
    res.wall = time.time() - t0
    res.log = "\n".join(log)
    open(os.path.join(wd, "log.txt"), "w").write(res.log)
    if res.failed:
        res.state = "violation"
        first = res.failed[0]
        res.trace_inputs = extract_inputs(first.get("trace") or [])
    elif undecided:
        res.state = "undecided"
        res.reason = "; ".join(undecided[:5])
    else:
        res.state = "ok"
    for o in res.failed:
        o.pop("trace", None) if o is not res.failed[0] else None
    if not keep and res.state == "ok":
        for f in os.listdir(wd):
            if f.endswith(".gb"):
                os.unlink(os.path.join(wd, f))
    return res


def extract_inputs(trace):
    """values of harness inputs (globals named in_* / g_*) from a cbmc json trace: last assignment wins"""
    vals = {}
    for st in trace:
        if st.get("stepType") != "assignment":
            continue
        lhs = st.get("lhs", "")
        m = re.match(r"^((?:in|g)_[A-Za-z0-9_]+)((?:\[\d+l?\])*)((?:\.[A-Za-z0-9_]+)*)$", lhs)
        if not m:
            continue
        v = st.get("value", {})
        if "data" in v:
            d = v["data"]
            if isinstance(d, str):
                d = d.rstrip("ulUL")
                if d in ("TRUE", "FALSE"):
                    d = "1" if d == "TRUE" else "0"
                mm = re.match(r"^-?\d+$", d)
                if mm:
                    vals[lhs.replace("l]", "]")] = int(d)
                else:
                    try:
                        vals[lhs.replace("l]", "]")] = int(v.get("binary", ""), 2)
                    except Exception:
                        pass
        elif v.get("name") == "pointer" and "NULL" in str(v.get("data", "")):
            vals[lhs] = 0
    return vals


# ------------------------------------------------------------------ native replay on the real code

def native_replay(job, inputs, outdir, obligation):
    """compile the same harness natively (gcc, ASan+UBSan) against the /repo sources and run it on the inputs.
    returns (reproduced: bool|None, text)"""
    os.makedirs(outdir, exist_ok=True)
    base = os.path.join(outdir, re.sub(r"[^A-Za-z0-9_.=-]", "_", job.key() + "--" + obligation)[:150])
    inp = base + ".inputs"
    with open(inp, "w") as f:
        for k, v in sorted(inputs.items()):
            f.write("%s %d\n" % (k, v))
    if not job.native:
        return None, "harness has no native mode", inp
    exe = os.path.join(WORK, job.prop, job.key(), "replay.exe")
    os.makedirs(os.path.dirname(exe), exist_ok=True)
    defs = list(BASE_DEFS) + ["-DOFV_NATIVE"] + ["-D%s=%s" % (k, v) if v is not None else "-D%s" % k for k, v in job.defines.items()]
    if job.native_sources is not None:
        nsrc = job.native_sources
    else:
        # link the harness against the whole library, minus the files it #includes as translation units
        nsrc = []
        for root, _, files in os.walk(os.path.join(REPO, "src")):
            if "lib_advanced" in root:
                continue
            for fn in sorted(files):
                if fn.endswith(".c"):
                    rel = os.path.relpath(os.path.join(root, fn), REPO)
                    if rel not in job.tu_included:
                        nsrc.append(rel)
    srcs = [os.path.join(VERIF, "contracts", job.harness), os.path.join(VERIF, "contracts", "ofv_native.c")] + [os.path.join(REPO, s) for s in nsrc]
    cmd = ["gcc", "-g", "-O0", "-w", "-fsanitize=address,undefined", "-fno-sanitize-recover=undefined", "-fno-omit-frame-pointer"] + defs + inc_flags() + srcs + ["-lm", "-o", exe]
    rc, out, _ = sh(cmd, 300, 64)
    if rc != 0:
        return None, "native build failed:\n" + out[-3000:], inp
    env = dict(os.environ, OFV_REPLAY=inp, ASAN_OPTIONS="detect_leaks=0:abort_on_error=0", UBSAN_OPTIONS="print_stacktrace=1")
    rc, out, _ = sh([exe], 120, 64 * 1024, env=env)
    text = "$ OFV_REPLAY=%s %s\nexit=%d\n%s" % (inp, " ".join(cmd[:6]) + " ... ; ./replay.exe", rc, out[-6000:])
    if "REPLAY-PRECONDITION-NOT-MET" in out:
        return False, text, inp
    repro = ("REPLAY-FAIL" in out) or ("AddressSanitizer" in out) or ("runtime error" in out) or rc < 0 or rc >= 128
    return bool(repro), text, inp
