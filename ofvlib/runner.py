"""property-level runner: schedules the jobs of one property, triages, replays, writes evidence."""
import importlib, json, os, re, sys, threading, time, shutil
from concurrent.futures import ThreadPoolExecutor
from . import core

CORES = int(os.environ.get("OFV_CORES", "16"))
MEM_BUDGET_GB = int(os.environ.get("OFV_MEM_GB", "52"))


class Sched:
    """admit jobs while cores and memory estimates fit"""
    def __init__(self):
        self.cv = threading.Condition()
        self.cores = CORES
        self.mem = MEM_BUDGET_GB

    def run(self, job):
        need = min(job.mem_gb, MEM_BUDGET_GB)
        with self.cv:
            while self.cores < 1 or self.mem < need:
                self.cv.wait()
            self.cores -= 1
            self.mem -= need
        try:
            return core.run_job(job)
        except Exception as e:  # never turn a driver bug into a verdict
            r = core.JobResult()
            r.state = "undecided"
            r.reason = "driver exception: %r" % (e,)
            job.result = r
            return r
        finally:
            with self.cv:
                self.cores += 1
                self.mem += need
                self.cv.notify_all()


def load_known():
    findings, fixed = [], []
    p = os.path.join(core.VERIF, "known_findings.txt")
    if os.path.exists(p):
        for line in open(p):
            line = line.strip()
            m = re.match(r"^finding:\s+property=(\S+)\s+job=(\S+)\s+obligation=(\S+)\s+::\s*(.*)$", line)
            if m:
                findings.append({"property": m.group(1), "job": m.group(2), "obligation": m.group(3), "text": m.group(4)})
            elif line.startswith("fixed:"):
                fixed.append(line)
    return findings, fixed


def scan_trusted(jobs):
    """mechanical scan: every assume / replaced callee / stub in the harness files used by this run"""
    out = set()
    seen = set()
    for j in jobs:
        if j.dfcc:
            for f, c in j.dfcc.get("replace", []):
                out.add("callee replaced by its contract: %s (contract %s)" % (f, c or f))
        for f, g in j.replace_calls:
            out.add("calls to %s redirected to the harness stub %s (stands for the callee's contract)" % (f, g))
        for f in j.remove_bodies:
            out.add("callee body removed (nondeterministic result, no side effect; unreachable when the contract holds): %s" % f)
        if j.harness in seen:
            continue
        seen.add(j.harness)
        try:
            txt = open(os.path.join(core.VERIF, "contracts", j.harness)).read()
        except Exception:
            continue
        for m in re.finditer(r"/\*\s*TRUSTED:\s*(.*?)\*/", txt, re.S):
            out.add("%s: %s" % (j.harness, " ".join(m.group(1).split())))
        n = len(re.findall(r"__CPROVER_assume\s*\(", txt))
        if n:
            out.add("%s: %d raw __CPROVER_assume (input shaping beyond REQUIRES; see file)" % (j.harness, n))
    return sorted(out)


def check(prop_id, tier, seed, only=None):
    t0 = time.time()
    mod = importlib.import_module("checks." + prop_id.lower())
    jobs = mod.jobs(tier, seed)
    if only:
        jobs = [j for j in jobs if re.search(only, j.name)]
    for j in jobs:
        j.prop = prop_id
    names = [j.name for j in jobs]
    assert len(set(names)) == len(names), "duplicate job names"
    shutil.rmtree(os.path.join(core.WORK, prop_id), ignore_errors=True)
    sched = Sched()
    # long jobs first
    order = sorted(jobs, key=lambda j: -j.timeout * j.mem_gb)
    with ThreadPoolExecutor(max_workers=CORES) as ex:
        list(ex.map(sched.run, order))
    findings, fixed = load_known()
    findings = [f for f in findings if f["property"] == prop_id]
    violations, known_hits, undecided = [], [], []
    rdir = os.path.join(core.VERIF, "replays", prop_id)
    shutil.rmtree(rdir, ignore_errors=True)
    for j in jobs:
        r = j.result
        if r.state == "undecided":
            undecided.append((j, r.reason))
        elif r.state == "violation":
            unknown = []
            for ob in r.failed:
                hit = None
                for f in findings:
                    if f["job"] == j.name and re.search(f["obligation"], ob["name"]):
                        hit = f
                        break
                if hit:
                    known_hits.append((j, ob, hit))
                else:
                    unknown.append(ob)
            if unknown:
                violations.append((j, unknown))
    # ---- undecided by the verifier (time-out / memory): execute the same contract harness natively on the real code (ASan/UBSan) for a few
    # input vectors.  This is testing, not proof: it can only turn 'undecided' into a violation backed by a real failing input; it never makes a job pass.
    fallback_hits = []
    still_undecided = []

    def fallback(item):
        j, reason = item
        if not (j.native and (reason.startswith("timeout") or "out of memory" in reason)) or os.environ.get("OFV_NO_NATIVE_FALLBACK"):
            return None
        rel = re.compile(j.relevant) if j.relevant else None
        for rs in (0, 1, 2):
            os.makedirs(rdir, exist_ok=True)
            repro, text, inp = core.native_replay(j, {}, rdir, "native-fallback-%d" % rs, random_seed=rs)
            if not repro:
                continue
            names = re.findall(r"REPLAY-FAIL (\S+)", text)
            if "AddressSanitizer" in text or "runtime error" in text:
                names.append("native.sanitizer_report.pointer_dereference")
            names = [n for n in names if (rel is None or rel.search(n))]
            if names:
                return (names[0], text, inp, rs)
        return None

    cand = undecided[:24]     # at most 24 undecided jobs are tried natively (each needs a sanitizer build of the library)
    with ThreadPoolExecutor(max_workers=8) as ex:
        hits = list(ex.map(fallback, cand))
    for item, hit in zip(cand, hits):
        if hit:
            fallback_hits.append((item[0], item[1], hit))
        else:
            still_undecided.append(item)
    still_undecided += undecided[24:]
    undecided = still_undecided
    out_lines = []
    for (j, ob, f) in known_hits:
        line = "KNOWN-FINDING: property=%s %s [job %s obligation %s]" % (prop_id, f["text"], j.name, ob["name"])
        if line not in out_lines:
            out_lines.append(line)
    nviol = 0
    vio_records = []
    for (j, obs) in violations:
        r = j.result
        ob = obs[0]
        os.makedirs(rdir, exist_ok=True)
        repro, text, inp = core.native_replay(j, r.trace_inputs, rdir, ob["name"])
        rep_path = inp[:-len(".inputs")] + ".replay.txt"
        with open(rep_path, "w") as f:
            f.write("property: %s\njob: %s (%s)\nfailed obligation: %s\n  cbmc property: %s\n  at: %s in %s\n  description: %s\n"
                    % (prop_id, j.name, j.group, ob["name"], ob["prop"], ob["loc"], ob["function"], ob["descr"]))
            f.write("all failed obligations of this job: %s\n" % ", ".join(sorted(set(o["name"] for o in obs)))[:4000])
            f.write("functions under contract: %s\nbound: %s\n" % (", ".join(j.functions), j.bound or "none"))
            f.write("counterexample inputs (from the verifier's trace): %s\n" % json.dumps(r.trace_inputs, sort_keys=True))
            f.write("inputs file for the native replay: %s\n" % inp)
            f.write("native replay on the real code: %s\n" % ("REPRODUCED" if repro else ("not reproduced" if repro is False else "not available")))
            f.write("\n---- native replay output ----\n%s\n" % text)
            f.write("\n---- verifier commands ----\n%s\n" % "\n".join(r.cmds))
            f.write("\n---- verifier output (tail) ----\n%s\n" % r.log[-5000:])
        suffix = "" if repro else " no-failing-input-found"
        out_lines.append("VIOLATION property=%s replay=%s obligation=%s/%s%s" % (prop_id, rep_path, j.name, ob["name"], suffix)
                         if False else "VIOLATION property=%s replay=%s%s" % (prop_id, rep_path, suffix))
        out_lines.append("  failed obligation: %s/%s (%s) inputs=%s" % (j.name, ob["name"], ob["loc"], json.dumps(r.trace_inputs, sort_keys=True)[:300]))
        nviol += 1
        vio_records.append({"job": j.name, "obligation": ob["name"], "replay": rep_path, "reproduced_natively": repro})
    for (j, reason, (name, text, inp, rs)) in fallback_hits:
        rep_path = inp[:-len(".inputs")] + ".replay.txt"
        with open(rep_path, "w") as f:
            f.write("property: %s\njob: %s (%s)\nverifier: UNDECIDED (%s)\nfailed obligation (found by native execution of the same contract harness on the real code, input vector %d): %s\n"
                    % (prop_id, j.name, j.group, reason, rs, name))
            f.write("functions under contract: %s\nbound: %s\ninputs file: %s (inputs not listed there: %s)\n"
                    % (", ".join(j.functions), j.bound or "none", inp, "0" if rs == 0 else "derived from OFV_REPLAY_RANDOM=%d" % rs))
            f.write("\n---- native run ----\n%s\n\n---- verifier commands ----\n%s\n" % (text, "\n".join(j.result.cmds)))
        out_lines.append("VIOLATION property=%s replay=%s" % (prop_id, rep_path))
        out_lines.append("  failed obligation: %s/%s (verifier undecided: %s; failing input found natively on the real code)" % (j.name, name, reason))
        nviol += 1
        vio_records.append({"job": j.name, "obligation": name, "replay": rep_path, "reproduced_natively": True, "verifier": "undecided: " + reason})
        j.result.state = "violation"
    for j in jobs:
        if getattr(j.result, "other_failed", None):
            out_lines.append("NOTE property=%s job=%s: %d failed obligation(s) that are clauses of other properties (%s) - decided by those properties' checks"
                             % (prop_id, j.name, len(j.result.other_failed), ", ".join(sorted(set(o["name"] for o in j.result.other_failed)))[:300]))
    for (j, reason) in undecided:
        out_lines.append("UNDECIDED property=%s job=%s: %s" % (prop_id, j.name, reason))

    # ---------------- evidence
    groups = {}
    tot_ob = tot_ok = 0
    solver_s = 0.0
    for j in jobs:
        r = j.result
        g = groups.setdefault(j.group, {"status": j.status, "functions": set(), "jobs": 0, "obligations": 0, "discharged": 0,
                                        "bounds": set(), "solver_s": 0.0, "backends": set(), "undecided_jobs": 0, "violating_jobs": 0,
                                        "loop_contracts": 0})
        if j.status == "bounded":
            g["status"] = "bounded"
        g["functions"].update(j.functions)
        g["jobs"] += 1
        kf = set(id(ob) for (jj, ob, f) in known_hits if jj is j)
        n = sum(1 for o in r.obligations if id(o) not in kf)   # obligations of listed known findings are reported separately
        ok = sum(1 for o in r.obligations if o["status"] == "SUCCESS" and id(o) not in kf)
        g["obligations"] += n
        g["discharged"] += ok
        g["loop_contracts"] += r.loop_contracts_applied
        if j.bound:
            g["bounds"].add(j.bound)
        g["solver_s"] += r.solver_s
        g["backends"].add(j.solver or "minisat(default SAT)")
        if r.state == "undecided":
            g["undecided_jobs"] += 1
        if r.state == "violation":
            g["violating_jobs"] += 1
        tot_ob += n
        tot_ok += ok
        solver_s += r.solver_s
    for g in groups.values():
        g["functions"] = sorted(g["functions"])
        g["bounds"] = sorted(g["bounds"])
        g["backends"] = sorted(g["backends"])
        g["solver_s"] = round(g["solver_s"], 1)
    samples = []
    for j in jobs[:]:
        r = j.result
        for o in r.obligations:
            if ".assertion." in o["prop"] and len(samples) < 12:
                samples.append({"job": j.name, "obligation": o["name"], "status": o["status"], "at": o["loc"]})
                break
    for j in jobs:
        for o in j.result.obligations:
            if ("loop invariant" in o["descr"] or "assigns" in o["descr"]) and len(samples) < 16:
                samples.append({"job": j.name, "obligation": o["prop"], "descr": o["descr"][:120], "status": o["status"], "at": o["loc"]})
                break
    all_proved = all(g["status"] == "proved" for g in groups.values()) and not undecided
    info = getattr(mod, "INFO", {})
    level = info.get("level", "proof" if all_proved else "model_checking")
    try:    # the evidence level is the level claimed for this property in MANIFEST.json
        man = json.load(open(os.path.join(core.VERIF, "MANIFEST.json")))
        for c in man.get("checks", []):
            if c["property_id"] == prop_id:
                level = c["level_claimed"]["category"]
    except Exception:
        pass
    trusted = scan_trusted(jobs) + list(info.get("trusted", []))
    cmd0 = jobs[0].result.cmds if jobs else []
    ev = {
        "property_id": prop_id, "tier": tier, "seed": seed, "level": level,
        "coverage": {
            "obligations": tot_ob, "discharged": tot_ok,
            "checker_cmd": " ; ".join(cmd0)[:3000],
            "trusted_base": trusted,
            "evaluations": len(jobs),
            "distinct_nontrivial": sum(1 for j in jobs if j.result.state == "ok" and len(j.result.obligations) > 0),
            "rule": "one evaluation = one CBMC run (job) of a contract harness on the real /repo sources; non-trivial = at least one obligation generated, reachability canary hit, all obligations discharged; jobs are distinct by (contract group, instance parameters)",
            "samples": samples,
            "groups": groups,
            "jobs": [{"name": j.name, "group": j.group, "status_kind": j.status, "bound": j.bound, "state": j.result.state,
                      "obligations": len(j.result.obligations), "solver": j.solver or "minisat", "solver_s": round(j.result.solver_s, 1),
                      "reason": j.result.reason} for j in jobs],
            "functions_under_contract": sorted(set(f for j in jobs for f in j.functions)),
            "proved_groups": sorted(k for k, g in groups.items() if g["status"] == "proved"),
            "bounded_groups": sorted(k for k, g in groups.items() if g["status"] == "bounded"),
            "undecided": [{"job": j.name, "reason": rs} for j, rs in undecided],
            "violations": vio_records,
            "known_findings_hit": [f["text"] for (_, _, f) in known_hits],
            "known_finding_obligations_excluded_from_counts": len(known_hits),
            "solver_wall_s_total": round(solver_s, 1),
            "explanation": info.get("explanation", ""),
            "exhaustive": False,
        },
        "assumptions": list(info.get("assumptions", [])) + COMMON_ASSUMPTIONS,
        "wall_s": round(time.time() - t0, 1),
        "violations": nviol,
    }
    os.makedirs(os.path.join(core.VERIF, "evidence"), exist_ok=True)
    if not only and not os.environ.get("OFV_NO_EVIDENCE"):
        json.dump(ev, open(os.path.join(core.VERIF, "evidence", prop_id + ".json"), "w"), indent=1, sort_keys=True)
    print("[ofv] %s tier=%s jobs=%d obligations=%d discharged=%d violations=%d undecided=%d wall=%.0fs"
          % (prop_id, tier, len(jobs), tot_ob, tot_ok, nviol, len(undecided), time.time() - t0))
    for g, d in sorted(groups.items()):
        print("[ofv]   group %-40s %-8s jobs=%-4d obligations=%-6d discharged=%-6d solver=%.0fs %s"
              % (g, d["status"], d["jobs"], d["obligations"], d["discharged"], d["solver_s"], ("bound: " + "; ".join(d["bounds"])) if d["bounds"] else ""))
    for l in out_lines:
        print(l)
    if nviol:
        return 1
    if undecided:
        return 2
    return 0


COMMON_ASSUMPTIONS = [
    "CBMC 6.11 C semantics, object/offset memory model (no alignment model), IEEE-754 encoding, and its malloc/calloc/free/memcpy/memset models; SAT/SMT solver soundness",
    "--no-malloc-may-fail: allocation failure paths are not explored",
    "configuration of the pinned build only: OPENFEC_LITTLE_ENDIAN, LP64 branches, release mode (no OF_DEBUG), ASSEMBLY_SSE_OPT off",
    "termination is checked only where a decreases clause is given",
]
