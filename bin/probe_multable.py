#!/usr/bin/env python3
"""probe: do the loop contracts of of_rs_init_mul_table close on an SMT back end? usage: probe_multable.py <z3|cvc5|cadical> <all|outer>"""
import sys, os
sys.path.insert(0, os.path.dirname(os.path.dirname(os.path.abspath(__file__))))
from ofvlib.core import Job, run_job
sol, var = sys.argv[1], sys.argv[2]
j = Job("mt_%s_%s" % (sol, var), "g", "c14_legacy_mul_table.c", ["of_rs_init_mul_table"],
        loops="of_rs_init_mul_table.json" if var == "all" else "of_rs_init_mul_table_outer.json",
        pre_unwindset=["of_modnn.0:4"] + (["of_rs_init_mul_table.1:257"] if var == "outer" else []), unwindset=["main.0:300"],
        timeout=7000, mem_gb=24, solver=sol)
j.prop = "PROBE"
r = run_job(j)
print(sol, var, r.state, r.reason, len(r.obligations), round(r.wall, 1), [o['name'] for o in r.failed][:8], r.trace_inputs, flush=True)
