#!/bin/sh
# Runs the repository's pinned test suite with the verification guard OFF (plain CMake build).
set -e
B=/repo/_build
cmake -S /repo -B $B -G Ninja -DCMAKE_BUILD_TYPE=RelWithDebInfo -DBUILD_TESTING=ON -DCMAKE_C_FLAGS="-Wno-error" >/dev/null
cmake --build $B -j16 >/dev/null
exec ctest --test-dir $B -j8 --timeout 900 "$@"
